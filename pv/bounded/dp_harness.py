"""Run-time privacy ledger and record/replay harness for the bounded tier of C05 and C06.

Everything here is harness-side: nothing is written into the tree under verification.

A *pair* is two executions of one real mechanism with identical parameters:

* RECORD run on a dataset D.  `numpy.random.normal`, `numpy.random.laplace` and
  `numpy.random.choice` are replaced (and restored afterwards) by wrappers that draw from a
  harness-owned `RandomState(case seed)` and log one event per call.  A noise draw is returned
  as an `ndarray` subclass whose addition records the array it is added to (the statistic that
  is being released) and yields a plain `ndarray`; the event keeps `operand(D)` and the
  released value.  A `choice` event keeps the support, `size`, `replace`, a copy of `p` and
  the outcome.
* REPLAY run on a neighbouring dataset D'.  The k-th sampler call must be of the recorded
  kind and shape; a noise event then yields an object whose addition to the operand returns
  the RECORDED released value (run 2 observes exactly the releases of run 1) while keeping
  `operand(D')`; a choice event returns the RECORDED outcome while keeping the `p` it was
  called with on D'.  On the first mismatch the replay is marked *diverged* and continues with
  fresh draws so that the run can finish.

The global numpy stream is consumed only by functions that are not wrapped
(`np.random.shuffle` in `synthetic_col`); it is seeded identically at the start of both runs.

Charges (C05) compare the two logs event by event:

* Gaussian: rho_k = ||operand(D) - operand(D')||_2^2 / (2 scale^2)
* Laplace:  eps_k = ||operand(D) - operand(D')||_1 / scale
* choice with probability vectors p, p' on one support: r = max_i d_i - min_i d_i with
  d_i = log p_i - log p'_i; rho_k = r^2/8 (zCDP accounting) or eps_k = r (pure-eps accounting).
  A cell with p_i > 0 on exactly one side has infinite cost.  Cells where both
  probabilities are below 1e-290 are ignored (`exp` underflow of the softmax).
  Draws with the same `p` in both runs (post-processing) cost 0, as does noise added to an
  operand that does not depend on the data.

Shims needed to run the mechanisms in the pinned sandbox (scipy 1.18, no hdmm/autodp):
`pv.realcode.stub_missing_modules`, a cap on `FactoredInference.iters` (iteration counts do
not enter the privacy accounting) and, for Adaptive Grid only, a proxy for the name `sparse`
in that module whose `vstack` returns a `csr_matrix` subclass with an assignable `T`
(`Q.T = sparse.csr_matrix(Q.T)` raises AttributeError on scipy >= 1.14 otherwise).
"""
import contextlib
import functools
import io
import itertools
import math
import sys

import numpy as np

MAX_EVENTS = 4000           # sampler calls per run; a run that needs more is not a bounded-tier input
TINY = 1e-290               # probabilities below this are treated as exp-underflow
MECHS = ('mst', 'aim', 'mwem', 'adagrid')
_FILE = {'mst': 'mst', 'aim': 'aim', 'mwem': 'mwem+pgm', 'adagrid': 'adaptive_grid'}


class HarnessError(RuntimeError):
    """The run left the model of the harness (never a verdict about the repository)."""


# ------------------------------------------------------------------------------------------
# events and the noise carrier
# ------------------------------------------------------------------------------------------
class Event:
    __slots__ = ('kind', 'scale', 'loc', 'size', 'site', 'raw', 'operand', 'released', 'adds', 'misuse',
                 'support', 'replace', 'p', 'outcome', 'synced')

    def __init__(self, kind):
        self.kind = kind
        self.scale = self.loc = None
        self.size = ()
        self.site = ''
        self.raw = self.operand = self.released = None
        self.adds = 0
        self.misuse = None
        self.support = None          # ('n', int) or ('arr', ndarray)
        self.replace = None
        self.p = None
        self.outcome = None
        self.synced = True           # replay only: this event was fed the recorded outcome

    def support_size(self):
        if self.support is None:
            return None
        return int(self.support[1]) if self.support[0] == 'n' else int(np.asarray(self.support[1]).size)

    def brief(self):
        d = dict(kind=self.kind, site=self.site, size=list(self.size))
        if self.kind == 'choice':
            d.update(support=self.support_size(), replace=bool(self.replace), has_p=self.p is not None)
        else:
            d.update(scale=self.scale)
        return d


class _Noise(np.ndarray):
    """Carrier of one noise draw: `operand + carrier` is the release."""
    __array_priority__ = 1e6

    def __new__(cls, arr, on_add, event):
        obj = np.asarray(arr, dtype=float).view(cls)
        obj._pv_on_add = on_add
        obj._pv_event = event
        return obj

    def __array_finalize__(self, obj):
        self._pv_on_add = getattr(obj, '_pv_on_add', None)
        self._pv_event = getattr(obj, '_pv_event', None)

    def __array_ufunc__(self, ufunc, method, *inputs, out=None, **kw):
        mine = [i for i in inputs if isinstance(i, _Noise)]
        if ufunc is np.add and method == '__call__' and len(inputs) == 2 and out is None and len(mine) == 1 \
                and mine[0]._pv_on_add is not None and not kw:
            other = inputs[1] if inputs[0] is mine[0] else inputs[0]
            return mine[0]._pv_on_add(other)
        for m in mine:
            if m._pv_event is not None:
                m._pv_event.misuse = 'noise consumed by %s.%s rather than one addition' % (ufunc.__name__, method)
        plain = [np.asarray(i) if isinstance(i, _Noise) else i for i in inputs]
        if out is not None:
            kw['out'] = tuple(np.asarray(o) if isinstance(o, _Noise) else o for o in out)
        return getattr(ufunc, method)(*plain, **kw)


def _norm_size(size):
    if size is None:
        return ()
    if isinstance(size, (int, np.integer)):
        return (int(size),)
    return tuple(int(s) for s in size)


def _site():
    f = sys._getframe(2)
    for _ in range(6):
        fn = f.f_code.co_filename
        if not fn.endswith('dp_harness.py'):
            return '%s:%d' % (fn.rsplit('/', 1)[-1], f.f_lineno)
        f = f.f_back
        if f is None:
            break
    return '?'


# ------------------------------------------------------------------------------------------
# the recorder
# ------------------------------------------------------------------------------------------
class Recorder:
    """Context manager that owns the wrapped samplers for one run."""

    def __init__(self, seed, recorded=None):
        self.rs = np.random.RandomState(seed)
        self.seed = seed
        self.recorded = recorded          # list of Events of the record run, or None in record mode
        self.events = []
        self.diverged_at = None
        self.divergence = None
        self._saved = None

    # -- plumbing
    def __enter__(self):
        self._saved = (np.random.normal, np.random.laplace, np.random.choice)
        np.random.normal = functools.partial(self._noise, 'normal')
        np.random.laplace = functools.partial(self._noise, 'laplace')
        np.random.choice = self._choice
        np.random.seed(self.seed % (2 ** 32))
        return self

    def __exit__(self, *exc):
        np.random.normal, np.random.laplace, np.random.choice = self._saved
        return False

    def _diverge(self, k, why):
        if self.diverged_at is None:
            self.diverged_at = k
            self.divergence = why

    def _next(self, ev):
        if len(self.events) >= MAX_EVENTS:
            raise HarnessError('more than %d sampler calls in one run' % MAX_EVENTS)
        self.events.append(ev)
        return len(self.events) - 1

    def _partner(self, k, kind):
        """Recorded event to be replayed at position k, or None (record mode / diverged)."""
        if self.recorded is None:
            return None
        if self.diverged_at is not None:
            return None
        if k >= len(self.recorded):
            self._diverge(k, 'run 2 performs an additional %s event' % kind)
            return None
        if self.recorded[k].kind != kind:
            self._diverge(k, 'event kind %s in run 1, %s in run 2' % (self.recorded[k].kind, kind))
            return None
        return self.recorded[k]

    # -- normal / laplace
    def _noise(self, kind, loc=0.0, scale=1.0, size=None):
        if np.ndim(scale) != 0 or np.ndim(loc) != 0:
            raise HarnessError('%s called with a non-scalar loc/scale' % kind)
        raw = getattr(self.rs, kind)(loc, scale, size)      # raises like the real sampler on bad arguments
        ev = Event(kind)
        ev.scale, ev.loc, ev.size, ev.site = float(scale), float(loc), _norm_size(size), _site()
        ev.raw = np.array(raw, dtype=float)
        k = self._next(ev)
        rec = self._partner(k, kind)
        if rec is not None and rec.size != ev.size:
            self._diverge(k, 'size %s in run 1, %s in run 2' % (list(rec.size), list(ev.size)))
            rec = None
        ev.synced = rec is not None

        def on_add(other, ev=ev, rec=rec, k=k):
            ev.adds += 1
            operand = np.array(other, dtype=float)
            if ev.adds > 1:
                ev.misuse = 'noise draw added more than once'
                return operand + ev.raw
            ev.operand = operand
            if rec is not None and rec.released is not None and np.shape(rec.released) == np.broadcast(operand, ev.raw).shape:
                ev.released = np.array(rec.released)
            else:
                if rec is not None:
                    self._diverge(k, 'shape of the released statistic differs')
                    ev.synced = False
                ev.released = operand + ev.raw
            return np.array(ev.released)

        return _Noise(ev.raw, on_add, ev)

    # -- choice
    def _choice(self, a, size=None, replace=True, p=None):
        out = self.rs.choice(a, size, replace, p)            # raises like the real sampler (NaN in p, ...)
        ev = Event('choice')
        ev.size, ev.site, ev.replace = _norm_size(size), _site(), bool(replace)
        ev.support = ('n', int(a)) if np.ndim(a) == 0 else ('arr', np.array(a))
        ev.p = None if p is None else np.array(p, dtype=float)
        k = self._next(ev)
        rec = self._partner(k, 'choice')
        if rec is not None:
            why = None
            if rec.support[0] != ev.support[0] or rec.support_size() != ev.support_size():
                why = 'support size %s in run 1, %s in run 2' % (rec.support_size(), ev.support_size())
            elif ev.support[0] == 'arr' and not np.array_equal(rec.support[1], ev.support[1]):
                why = 'choice over different value sets'
            elif rec.size != ev.size:
                why = 'choice size %s in run 1, %s in run 2' % (list(rec.size), list(ev.size))
            elif rec.replace != ev.replace or (rec.p is None) != (ev.p is None):
                why = 'choice called with different replace / p arguments'
            if why:
                self._diverge(k, why)
                rec = None
        ev.synced = rec is not None
        if rec is not None:
            out = np.array(rec.outcome) if np.ndim(rec.outcome) else rec.outcome
        ev.outcome = np.array(out) if np.ndim(out) else out
        return out


# ------------------------------------------------------------------------------------------
# shims
# ------------------------------------------------------------------------------------------
@contextlib.contextmanager
def capped_iters(cap):
    """Cap FactoredInference.iters (constructor argument and later assignment, AIM sets 2500 at the end)."""
    from mbi import FactoredInference
    assert 'iters' not in FactoredInference.__dict__
    prop = property(lambda s: s.__dict__['_pv_iters'],
                    lambda s, v: s.__dict__.__setitem__('_pv_iters', min(int(v), cap)))
    FactoredInference.iters = prop
    try:
        yield
    finally:
        del FactoredInference.iters


_CSR_T = None


def _csr_with_settable_T():
    global _CSR_T
    if _CSR_T is None:
        from scipy import sparse

        class CsrT(sparse.csr_matrix):
            @property
            def T(self):
                t = self.__dict__.get('_pv_T')
                return self.transpose() if t is None else t

            @T.setter
            def T(self, v):
                self.__dict__['_pv_T'] = v
        _CSR_T = CsrT
    return _CSR_T


_RHO_MEMO = {}


@contextlib.contextmanager
def memoised_cdp_rho(*mods):
    """cdp_rho costs ~0.3 s per call (10^6 inner iterations) and is a pure function of (eps, delta): within one
    worker process the REAL function found in the mechanism's namespace is called once per argument pair and
    its value reused.  The memo is keyed by the function's source file and mtime, so a scratch copy never
    sees values of another tree."""
    import os
    saved = []
    for mod in mods:
        real = getattr(mod, 'cdp_rho', None)
        if real is None or getattr(real, '_pv_memo', False):
            continue
        f = getattr(sys.modules.get(real.__module__), '__file__', '') or ''
        tag = (f, os.stat(f).st_mtime_ns if f and os.path.exists(f) else 0)

        def wrapper(eps, delta, _real=real, _tag=tag):
            key = (_tag, float(eps), float(delta))
            if key not in _RHO_MEMO:
                _RHO_MEMO[key] = _real(eps, delta)
            return _RHO_MEMO[key]
        wrapper._pv_memo = True
        saved.append((mod, real))
        mod.cdp_rho = wrapper
    try:
        yield
    finally:
        for mod, real in saved:
            mod.cdp_rho = real


class _SparseProxy:
    """Stands for the name `sparse` inside mechanisms/adaptive_grid.py."""

    def __init__(self, real):
        self._real = real

    def __getattr__(self, name):
        return getattr(self._real, name)

    def vstack(self, blocks, *a, **kw):
        return _csr_with_settable_T()(self._real.vstack(blocks, *a, **kw))


@contextlib.contextmanager
def adagrid_T_shim(mod):
    from scipy import sparse
    needs = False
    try:
        q = sparse.vstack([sparse.csr_matrix(np.eye(2))])
        q.T = sparse.csr_matrix(q.T)
    except AttributeError:
        needs = True
    if not needs:
        yield False
        return
    real = mod.sparse
    mod.sparse = _SparseProxy(real)
    try:
        yield True
    finally:
        mod.sparse = real


# ------------------------------------------------------------------------------------------
# datasets and neighbours (numpy int arrays; Dataset objects are built from the real mbi)
# ------------------------------------------------------------------------------------------
ATTRS = 'abcd'


def dataset_rows(spec, boundary_T=None):
    """n x d int array from a dataset spec (all randomness from spec['seed'])."""
    shape, n, kind = list(spec['shape']), int(spec['n']), spec['kind']
    rs = np.random.RandomState(spec['seed'])
    d = len(shape)
    if kind == 'uniform':
        cols = [rs.randint(0, s, n) for s in shape]
    elif kind == 'skewed':
        cols = [rs.choice(s, n, p=rs.dirichlet(0.5 * np.ones(s))) for s in shape]
    elif kind == 'sparse':
        # some values never occur, neighbouring columns are correlated
        cols = []
        for j, s in enumerate(shape):
            pr = rs.dirichlet(0.7 * np.ones(s))
            if s > 2:
                pr[rs.randint(s)] = 0.0
            pr = pr / pr.sum()
            c = rs.choice(s, n, p=pr)
            if j > 0:
                keep = rs.rand(n) < 0.6
                c = np.where(keep, cols[j - 1] % s, c)
            cols.append(c)
    elif kind == 'boundary':
        # counts of attribute 0 sit on both sides of a public integer threshold T:
        # value 0 occurs exactly T times, value 1 exactly T-1 times, the rest is spread over the others
        T = int(boundary_T)
        rest = max(4, n - (2 * T - 1))
        c0 = np.concatenate([np.zeros(T, int), np.ones(max(T - 1, 0), int),
                             (rs.randint(0, max(shape[0] - 2, 1), rest) + 2) % shape[0] if shape[0] > 2
                             else rs.randint(0, 2, 0)])
        n = c0.size
        rs.shuffle(c0)
        cols = [c0] + [rs.randint(0, s, n) for s in shape[1:]]
    else:
        raise HarnessError('unknown dataset kind %r' % kind)
    return np.array(cols, dtype=int).T.reshape(-1, d)


def neighbour_rows(rows, nb):
    op = nb['op']
    if 'where' in nb:
        col, val = nb['where']
        hits = np.nonzero(rows[:, col] == val)[0]
        if hits.size == 0:
            raise HarnessError('no record with column %d == %d' % (col, val))
        idx = int(hits[nb.get('nth', 0) % hits.size])
    else:
        idx = nb.get('index')
    if op == 'remove':
        return np.delete(rows, idx, axis=0)
    if op == 'add':
        at = int(nb.get('at', rows.shape[0])) % (rows.shape[0] + 1)
        return np.insert(rows, at, np.array(nb['record'], dtype=int), axis=0)
    if op == 'replace':
        out = rows.copy()
        out[idx] = np.array(nb['record'], dtype=int)
        return out
    raise HarnessError('unknown neighbour op %r' % op)


def to_dataset(rows, shape):
    import pandas as pd
    from mbi import Dataset, Domain
    attrs = list(ATTRS[:len(shape)])
    dom = Domain(attrs, [int(s) for s in shape])
    return Dataset(pd.DataFrame(np.array(rows, dtype=int), columns=attrs), dom)


# ------------------------------------------------------------------------------------------
# mechanisms
# ------------------------------------------------------------------------------------------
def load(mech):
    from ..realcode import load_mechanism
    return load_mechanism(_FILE[mech])


def real_rho(eps, delta):
    """cdp_rho of the tree under verification (the budget every zCDP mechanism is held to)."""
    from ..realcode import load_mechanism
    mod = load_mechanism('cdp2adp')
    with memoised_cdp_rho(mod):
        return float(mod.cdp_rho(eps, delta))


def workload_of(params, d):
    attrs = list(ATTRS[:d])
    w = params.get('workload', 'pairs')
    if isinstance(w, list):
        return [tuple(c) for c in w]
    if w == 'pairs':
        return list(itertools.combinations(attrs, 2))
    if w == 'pairs+singles':
        return [(a,) for a in attrs] + list(itertools.combinations(attrs, 2))
    if w == 'triples':
        return list(itertools.combinations(attrs, 3))
    if w == 'chain':
        return [(attrs[i], attrs[i + 1]) for i in range(d - 1)]
    if w == 'mixed':
        return list(itertools.combinations(attrs, 2))[::2] + list(itertools.combinations(attrs, 3))[:1]
    raise HarnessError('unknown workload %r' % (w,))


def boundary_threshold(mech, params, d):
    """Public integer threshold T = ceil(c * sigma) of the mechanism's support test (MST: 3 * per-marginal sigma on the
    one-way marginals, Adaptive Grid: threshold * step1_sigma), from the real cdp_rho; used only to place
    cell counts of 'boundary' datasets on both sides of it."""
    rho = real_rho(params['epsilon'], params['delta'])
    if mech == 'mst':
        # measure() normalises the d unit weights to 1/sqrt(d): each one-way marginal gets scale sigma*sqrt(d)
        return int(math.ceil(3 * math.sqrt(3 / (2 * rho)) * math.sqrt(d)))
    if mech == 'adagrid':
        split = params.get('split_strategy') or [1, 1, 1]
        rho1 = rho * split[0] / float(sum(split))
        nt = len(params.get('targets') or [])
        n_all = (d - nt) * (2 ** nt) + (2 ** nt - 1)        # |downward closure of {(a,)+targets}|
        return int(math.ceil(params['threshold'] * math.sqrt(0.5 / rho1) * math.sqrt(n_all)))
    raise HarnessError('no boundary threshold for %s' % mech)


def call_mechanism(mech, mod, data, params, iters):
    eps, delta = params['epsilon'], params['delta']
    d = len(data.domain)
    if mech == 'mst':
        return mod.MST(data, eps, delta)
    if mech == 'aim':
        W = [(cl, float(1 + (i % 2) * params.get('weight_step', 0.0))) for i, cl in enumerate(workload_of(params, d))]
        m = mod.AIM(eps, delta, None, rounds=params.get('rounds'), max_model_size=params.get('max_model_size', 80))
        return m.run(data, W)
    if mech == 'mwem':
        return mod.mwem_pgm(data, eps, delta, workload=workload_of(params, d), rounds=params.get('rounds'),
                            pgm_iters=iters, noise=params.get('noise', 'gaussian'),
                            bounded=bool(params.get('bounded', False)), alpha=params.get('alpha', 0.9))
    if mech == 'adagrid':
        return mod.adagrid(data, eps, delta, params['threshold'], targets=list(params.get('targets') or []),
                           split_strategy=params.get('split_strategy'), iters=iters)
    raise HarnessError('unknown mechanism %r' % mech)


class Run:
    def __init__(self):
        self.events = []
        self.output = None            # mbi Dataset
        self.error = None             # repr of the exception that ended the run
        self.error_type = None
        self.diverged_at = None
        self.divergence = None


def run_once(mech, rows, shape, params, seed, iters, recorded=None):
    mod = load(mech)
    data = to_dataset(rows, shape)
    run = Run()
    rec = Recorder(seed, recorded)
    shim = adagrid_T_shim(mod) if mech == 'adagrid' else contextlib.nullcontext()
    holders = [mod]
    if mech == 'aim':
        holders.append(sys.modules[mod.Mechanism.__module__])       # AIM prices through Mechanism.__init__
    with capped_iters(iters), memoised_cdp_rho(*holders), shim, rec, contextlib.redirect_stdout(io.StringIO()):
        try:
            run.output = call_mechanism(mech, mod, data, params, iters)
        except HarnessError:
            raise
        except Exception as e:                      # the caller decides what an exception means
            run.error, run.error_type = '%s: %s' % (type(e).__name__, e), type(e).__name__
    run.events, run.diverged_at, run.divergence = rec.events, rec.diverged_at, rec.divergence
    run.input = data
    return run


def aim_overspend_setting(case):
    """AIM settings for which the initial one-way measurements alone exceed rho (rounds < 0.9 * #one-way)."""
    if case['mech'] != 'aim':
        return False
    d = len(case['data']['shape'])
    attrs = {a for cl in workload_of(case['params'], d) for a in cl}
    rounds = case['params'].get('rounds') or 16 * d
    return rounds < 0.9 * len(attrs)


def run_pair(case):
    """Both runs of a case.  -> (run1, run2, rows, rows')"""
    mech, params, spec = case['mech'], case['params'], case['data']
    shape = spec['shape']
    T = boundary_threshold(mech, params, len(shape)) if spec['kind'] == 'boundary' else None
    rows = dataset_rows(spec, T)
    rows2 = neighbour_rows(rows, case['nbr'])
    iters = int(case.get('iters', 40))
    r1 = run_once(mech, rows, shape, params, case['seed'], iters)
    r2 = run_once(mech, rows2, shape, params, case['seed'], iters, recorded=r1.events)
    return r1, r2, rows, rows2


# ------------------------------------------------------------------------------------------
# analysis
# ------------------------------------------------------------------------------------------
def sequence_mismatches(r1, r2, limit=5):
    """Differences between the two event logs (kinds, scales to 1e-12 relative, sizes, choice supports)."""
    out = []
    if r2.diverged_at is not None:
        out.append(dict(at=r2.diverged_at, what=r2.divergence))
    if len(r1.events) != len(r2.events):
        out.append(dict(at=min(len(r1.events), len(r2.events)),
                        what='run 1 performs %d sampler calls, run 2 %d' % (len(r1.events), len(r2.events))))
    for k, (a, b) in enumerate(zip(r1.events, r2.events)):
        if len(out) >= limit:
            break
        if a.kind != b.kind:
            out.append(dict(at=k, what='kind %s vs %s' % (a.kind, b.kind)))
            break
        if a.size != b.size:
            out.append(dict(at=k, what='size %s vs %s' % (list(a.size), list(b.size)), site=a.site))
        if a.kind == 'choice':
            if a.support_size() != b.support_size() or a.replace != b.replace or (a.p is None) != (b.p is None):
                out.append(dict(at=k, what='choice support %s vs %s' % (a.support_size(), b.support_size()), site=a.site))
        else:
            if abs(a.scale - b.scale) > 1e-12 * max(abs(a.scale), abs(b.scale)):
                out.append(dict(at=k, what='noise scale %r vs %r' % (a.scale, b.scale), site=a.site))
    return out


def _choice_range(p, q):
    """Spread of log p_i - log q_i; inf if one side gives positive probability to a cell the other excludes."""
    p, q = np.asarray(p, float), np.asarray(q, float)
    if p.shape != q.shape:
        return float('inf')
    hi = np.maximum(p, q)
    lo = np.minimum(p, q)
    live = hi >= TINY
    if np.any(live & (lo <= 0)):
        return float('inf')
    if not live.any():
        return 0.0
    d = np.log(p[live]) - np.log(q[live])
    return float(d.max() - d.min())


def charges(r1, r2):
    """Per-event charges of the aligned prefix of the two logs.

    -> list of dict(k, kind, site, rho, eps, ...) ; rho in zCDP accounting, eps in pure-eps accounting
       (Gaussian noise has no finite pure-eps price: eps = inf when its operand moved)."""
    out = []
    n = min(len(r1.events), len(r2.events))
    if r2.diverged_at is not None:
        n = min(n, r2.diverged_at)
    for k in range(n):
        a, b = r1.events[k], r2.events[k]
        for e in (a, b):
            if e.misuse:
                raise HarnessError('event %d (%s at %s): %s' % (k, e.kind, e.site, e.misuse))
        c = dict(k=k, kind=a.kind, site=a.site)
        if a.kind == 'choice':
            if a.p is None:
                r = 0.0
            else:
                r = _choice_range(a.p, b.p)
            c.update(range=r, rho=r * r / 8.0, eps=r, support=a.support_size())
        else:
            if a.operand is None or b.operand is None:
                raise HarnessError('event %d (%s at %s): noise draw was not consumed by an addition' % (k, a.kind, a.site))
            diff = a.operand - b.operand
            if a.kind == 'normal':
                l2 = float(np.sqrt((diff * diff).sum()))
                rho = l2 * l2 / (2 * a.scale ** 2)
                c.update(scale=a.scale, l2=l2, rho=rho, eps=(0.0 if l2 == 0 else float('inf')))
            else:
                l1 = float(np.abs(diff).sum())
                e = l1 / a.scale
                c.update(scale=a.scale, l1=l1, eps=e, rho=e * e / 2.0)     # eps-DP implies eps^2/2-zCDP
        out.append(c)
    return out


def output_equal(r1, r2):
    a, b = r1.output, r2.output
    if a is None or b is None:
        return a is None and b is None, dict(run1_returned=a is not None, run2_returned=b is not None)
    va, vb = np.asarray(a.df.values), np.asarray(b.df.values)
    if va.shape != vb.shape:
        return False, dict(shape_run1=list(va.shape), shape_run2=list(vb.shape))
    same_cols = list(a.df.columns) == list(b.df.columns)
    neq = np.argwhere(va != vb)
    ok = same_cols and neq.size == 0
    det = dict(shape=list(va.shape))
    if not ok:
        det.update(differing_cells=int(neq.shape[0]), first=[int(x) for x in neq[0]] if neq.size else None,
                   columns_run1=list(map(str, a.df.columns)), columns_run2=list(map(str, b.df.columns)))
    return ok, det


def conforms(output, data):
    """The returned dataset lives on the ORIGINAL input domain."""
    det = {}
    dom_in, dom_out = data.domain, output.domain
    ok = True
    if list(dom_out.attrs) != list(dom_in.attrs) or tuple(dom_out.shape) != tuple(dom_in.shape):
        ok = False
        det['domain_out'] = dict(zip(map(str, dom_out.attrs), map(int, dom_out.shape)))
        det['domain_in'] = dict(zip(map(str, dom_in.attrs), map(int, dom_in.shape)))
    cols = list(output.df.columns)
    if cols != list(dom_in.attrs):
        ok = False
        det['columns'] = list(map(str, cols))
    vals = np.asarray(output.df.values)
    if vals.size:
        try:
            iv = vals.astype(float)
            bad = ~np.isfinite(iv) | (iv != np.floor(iv))
        except (TypeError, ValueError):
            iv, bad = None, np.ones(vals.shape, bool)
        if iv is None or bad.any():
            ok = False
            det['non_integer_values'] = int(bad.sum())
        elif vals.shape[1] == len(dom_in.shape):
            lim = np.array(dom_in.shape)[None, :]
            oob = (iv < 0) | (iv >= lim)
            if oob.any():
                ok = False
                j = np.argwhere(oob)[0]
                det['out_of_range'] = dict(count=int(oob.sum()), row=int(j[0]), column=str(dom_in.attrs[j[1]]),
                                           value=float(iv[j[0], j[1]]), size=int(dom_in.shape[j[1]]))
    det['rows'] = int(vals.shape[0])
    return ok, det


# ------------------------------------------------------------------------------------------
# case generation (shared by C05 and C06; every random choice comes from `seed`)
# ------------------------------------------------------------------------------------------
EPS_DELTA = [(e, d) for e in (0.5, 1.0, 5.0) for d in (1e-9, 1e-5, 0.1)]
# (eps, delta) settings whose public support thresholds are small enough for a 'boundary' dataset of <= ~200 records
BOUNDARY_ED = [(1.0, 1e-5), (5.0, 1e-9), (5.0, 1e-5), (0.5, 0.1), (1.0, 0.1), (5.0, 0.1)]
SHAPES = {2: [[3, 4], [2, 2], [4, 3]],
          3: [[2, 2, 2], [2, 3, 2], [3, 3, 3], [4, 2, 3], [3, 2, 4]],
          4: [[2, 2, 2, 2], [3, 2, 2, 3], [2, 4, 3, 2]]}
KINDS = ['uniform', 'skewed', 'sparse']
ADD_REMOVE = ['remove-first', 'add-rand', 'remove-rand', 'add-front', 'remove-last', 'add-dup', 'remove-rand', 'add-rare']
REPLACE = ['replace-all', 'replace-one', 'replace-all', 'replace-rand']


def _pick(rng, seq):
    return seq[int(rng.randint(len(seq)))]


def _neighbour(rng, rows, shape, mode):
    n, d = rows.shape
    if mode == 'remove-first':
        return dict(op='remove', index=0)
    if mode == 'remove-last':
        return dict(op='remove', index=n - 1)
    if mode == 'remove-rand':
        return dict(op='remove', index=int(rng.randint(n)))
    if mode == 'add-rand':
        return dict(op='add', record=[int(rng.randint(s)) for s in shape], at=int(rng.randint(n + 1)))
    if mode == 'add-front':
        return dict(op='add', record=[int(rng.randint(s)) for s in shape], at=0)
    if mode == 'add-dup':
        return dict(op='add', record=[int(v) for v in rows[int(rng.randint(n))]], at=int(rng.randint(n + 1)))
    if mode == 'add-rare':
        rec = [int(np.argmin(np.bincount(rows[:, j], minlength=shape[j]))) for j in range(d)]
        return dict(op='add', record=rec, at=int(rng.randint(n + 1)))
    idx = int(rng.randint(n))
    old = rows[idx]
    if mode == 'replace-all':        # every attribute changes: every marginal of the record moves
        rec = [int((old[j] + 1 + rng.randint(shape[j] - 1)) % shape[j]) for j in range(d)]
    elif mode == 'replace-one':
        rec = [int(v) for v in old]
        j = int(rng.randint(d))
        rec[j] = int((old[j] + 1 + rng.randint(shape[j] - 1)) % shape[j])
    else:
        rec = [int(v) for v in old]
        while rec == [int(v) for v in old]:
            rec = [int(rng.randint(s)) for s in shape]
    return dict(op='replace', index=idx, record=rec)


def _data_spec(rng, d_choices, n_choices, kinds=KINDS):
    shape = _pick(rng, SHAPES[_pick(rng, d_choices)])
    return dict(shape=list(shape), n=int(_pick(rng, n_choices)), kind=_pick(rng, kinds), seed=int(rng.randint(1 << 30)))


def _mk(rng, mech, params, spec, mode, i):
    if spec['kind'] == 'boundary':
        # remove a record from the cell that holds exactly T records / add one to the cell that holds T-1
        if mode.startswith('remove'):
            nbr = dict(op='remove', where=[0, 0], nth=int(rng.randint(1000)))
        else:
            nbr = dict(op='add', record=[1] + [int(rng.randint(s)) for s in spec['shape'][1:]], at=int(rng.randint(50)))
    else:
        nbr = _neighbour(rng, dataset_rows(spec), spec['shape'], mode)
    return dict(mech=mech, params=params, data=spec, nbr=nbr, seed=int(rng.randint(1 << 30)), iters=[15, 40][i % 2])


def gen_cases(tier, seed):
    rng = np.random.RandomState(seed)
    mult = 1 if tier == 'quick' else 6
    per = {}

    # ---- MST: add/remove adjacency
    lst = []
    for i in range(36 * mult):
        e, dl = EPS_DELTA[(i * 4 + i // 9) % 9]
        if i % 6 == 5:
            e, dl = BOUNDARY_ED[(i // 6) % len(BOUNDARY_ED)]
            spec = dict(shape=list(_pick(rng, SHAPES[3])), n=int(_pick(rng, [60, 120])), kind='boundary', seed=int(rng.randint(1 << 30)))
            if spec['shape'][0] < 3:
                spec['shape'][0] = 3
        else:
            spec = _data_spec(rng, [3, 3, 3, 4, 4, 2], [20, 50, 120, 200])
        lst.append(_mk(rng, 'mst', dict(epsilon=e, delta=dl), spec, ADD_REMOVE[i % len(ADD_REMOVE)], i))
    per['mst'] = lst

    # ---- AIM: add/remove adjacency; rounds below 0.9 * #one-way are the documented abort family
    lst = []
    for i in range(42 * mult):
        e, dl = EPS_DELTA[(i * 2 + i // 9) % 9]
        spec = _data_spec(rng, [3, 3, 4], [20, 60, 150])
        d = len(spec['shape'])
        wl = ['pairs', 'triples', 'mixed', 'chain', 'pairs'][i % 5]
        if i % 7 == 3:
            rounds = int(rng.randint(1, d - 1 + 1)) if d == 4 else int(rng.randint(1, 3))     # < 0.9 d : abort family
            wl = 'pairs'
        else:
            rounds = [d, 12, 2 * d, 20, d + 1, 3 * d][i % 6]
            if tier == 'thorough' and i % 40 == 0:
                rounds = None
        p = dict(epsilon=e, delta=dl, rounds=rounds, workload=wl, max_model_size=[80, 80, 3e-4, 1e-3][i % 4],
                 weight_step=[0.0, 0.5, 2.0][i % 3])
        lst.append(_mk(rng, 'aim', p, spec, ADD_REMOVE[(i + 1) % len(ADD_REMOVE)], i))
    per['aim'] = lst

    # ---- MWEM+PGM: noise kind x adjacency
    lst = []
    for i in range(48 * mult):
        e, dl = EPS_DELTA[(i * 5 + i // 9) % 9]
        bounded = i % 2 == 1
        noise = 'laplace' if (i // 2) % 3 == 2 else 'gaussian'
        if bounded and i % 4 == 1:
            spec = dict(shape=[2, 2, 2], n=int(_pick(rng, [12, 16, 20])), kind=_pick(rng, KINDS), seed=int(rng.randint(1 << 30)))
        else:
            spec = _data_spec(rng, [3, 3, 4, 2], [20, 40, 100, 200])
        d = len(spec['shape'])
        wl = ['pairs', 'pairs+singles', 'pairs', 'triples', 'chain'][i % 5]
        if d == 2 and wl == 'triples':
            wl = 'pairs+singles'
        p = dict(epsilon=e, delta=dl, rounds=[None, 2, 1, 5, 3][(i // 2) % 5], noise=noise, bounded=bounded,
                 workload=wl, alpha=[0.9, 0.9, 0.5][i % 3])
        mode = REPLACE[(i // 2) % len(REPLACE)] if bounded else ADD_REMOVE[(i // 2) % len(ADD_REMOVE)]
        lst.append(_mk(rng, 'mwem', p, spec, mode, i))
    per['mwem'] = lst

    # ---- Adaptive Grid: add/remove adjacency
    lst = []
    for i in range(36 * mult):
        e, dl = EPS_DELTA[(i * 7 + i // 9) % 9]
        targets = [[], [], ['a'], [], ['b']][i % 5]
        thr = [5.0, 2.0, 0.5, 2.0][i % 4]
        split = [None, [0.1, 0.1, 0.8], [1, 2, 3]][i % 3]
        if i % 6 == 4:
            e, dl = BOUNDARY_ED[(i // 6) % len(BOUNDARY_ED)]
            thr = [2.0, 5.0][(i // 6) % 2] if (e, dl) != (1.0, 1e-5) else 2.0
            targets = []
            spec = dict(shape=list(_pick(rng, SHAPES[3])), n=int(_pick(rng, [60, 120])), kind='boundary', seed=int(rng.randint(1 << 30)))
            if spec['shape'][0] < 3:
                spec['shape'][0] = 3
        else:
            spec = _data_spec(rng, [3, 3, 4] if targets else [3, 3, 4, 2], [20, 60, 120, 200])
        p = dict(epsilon=e, delta=dl, threshold=thr, targets=targets, split_strategy=split)
        lst.append(_mk(rng, 'adagrid', p, spec, ADD_REMOVE[(i + 3) % len(ADD_REMOVE)], i))
    per['adagrid'] = lst

    # most diverse first: round-robin over the mechanisms
    for row in itertools.zip_longest(per['mst'], per['aim'], per['mwem'], per['adagrid']):
        for c in row:
            if c is not None:
                yield c


def case_nontrivial(case):
    """D' differs from D as a multiset of records and the domain has >= 2 attributes."""
    spec = case['data']
    if len(spec['shape']) < 2:
        return False
    nb = case['nbr']
    if nb['op'] in ('add', 'remove'):
        return True
    if spec['kind'] == 'boundary':
        return True
    rows = dataset_rows(spec)
    return [int(v) for v in rows[nb['index']]] != [int(v) for v in nb['record']]


def describe_pair(case, r1, r2):
    return dict(mech=case['mech'], events_run1=len(r1.events), events_run2=len(r2.events),
                run1_error=r1.error, run2_error=r2.error,
                records=int(r1.input.records), records_neighbour=int(r2.input.records))


# ------------------------------------------------------------------------------------------
# hash-seed isolation
# ------------------------------------------------------------------------------------------
# The mechanisms iterate over sets of attribute-name tuples (downward_closure, set.union in synthetic_data,
# networkx components), so the order of candidates - and with it the meaning of a recorded outcome sequence -
# depends on the interpreter's string-hash seed.  Within one process both runs of a pair see the same order, so
# the comparison is sound either way, but a replay file must reproduce in a NEW process.  Unless the interpreter
# already runs with PYTHONHASHSEED=0, every process that evaluates cases does so in one long-lived child
# interpreter started with PYTHONHASHSEED=0 (frames of pickled (property id, case) -> result over pipes).
HASHSEED = '0'
_CHILD = None


def dispatch(prop_id, case, run_here):
    import os
    if os.environ.get('PYTHONHASHSEED') == HASHSEED:
        return run_here(case)
    return _child().call(prop_id, case)


class _Child:
    def __init__(self):
        import os, subprocess
        from .. import env
        e = dict(os.environ, PYTHONHASHSEED=HASHSEED, PV_DP_CHILD='1')
        self.p = subprocess.Popen([sys.executable, '-W', 'ignore', '-m', 'pv.bounded.dp_harness', '--child'],
                                  cwd=env.VERIF, env=e, stdin=subprocess.PIPE, stdout=subprocess.PIPE)
        self.pid = os.getpid()

    def call(self, prop_id, case):
        import pickle, struct
        blob = pickle.dumps((prop_id, case))
        try:
            self.p.stdin.write(struct.pack('<Q', len(blob)) + blob)
            self.p.stdin.flush()
            head = self.p.stdout.read(8)
            if len(head) < 8:
                raise EOFError
            (n,) = struct.unpack('<Q', head)
            status, payload = pickle.loads(self.p.stdout.read(n))
        except (EOFError, BrokenPipeError, OSError) as e:
            global _CHILD
            _CHILD = None
            raise HarnessError('case evaluator child died (%s)' % type(e).__name__)
        if status == 'error':
            raise RuntimeError(payload)
        return payload


def _child():
    global _CHILD
    import os
    if _CHILD is None or _CHILD.pid != os.getpid() or _CHILD.p.poll() is not None:
        _CHILD = _Child()
    return _CHILD


def _child_main():
    import importlib, os, pickle, struct, traceback
    inp = os.fdopen(os.dup(0), 'rb')
    out = os.fdopen(os.dup(1), 'wb')
    devnull = os.open(os.devnull, os.O_WRONLY)
    os.dup2(devnull, 1)                      # anything the code under test prints goes nowhere
    sys.stdout = open(os.devnull, 'w')
    import threading, time
    parent = os.getppid()

    def watchdog():                          # do not outlive the process that asked for the work
        while True:
            time.sleep(0.5)
            if os.getppid() != parent:
                os._exit(0)
    threading.Thread(target=watchdog, daemon=True).start()
    from .. import env
    env.ensure_repo_importable()
    props = {}
    while True:
        head = inp.read(8)
        if len(head) < 8:
            return
        (n,) = struct.unpack('<Q', head)
        prop_id, case = pickle.loads(inp.read(n))
        try:
            if prop_id not in props:
                props[prop_id] = importlib.import_module('pv.props.' + prop_id).PROP
            res = props[prop_id].run_case_here(case)
            from ..runner import jsonable
            msg = ('ok', [(c, bool(ok), jsonable(d)) for c, ok, d in res])
        except Exception as e:
            msg = ('error', '%s: %s\n%s' % (type(e).__name__, e, traceback.format_exc(limit=8)))
        blob = pickle.dumps(msg)
        out.write(struct.pack('<Q', len(blob)) + blob)
        out.flush()


if __name__ == '__main__' and '--child' in sys.argv:
    _child_main()
