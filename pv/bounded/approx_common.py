"""Independent oracles shared by the bounded tiers of C16-C19.

Nothing in here imports the tree under verification: clique sets are lists of tuples of
attribute names, tables are numpy arrays whose axes follow the order of the tuple, joints are
dense arrays over all attributes of the (tiny) domain.
"""
import itertools
import numpy as np

ATTRS = 'abcdefgh'


# ----------------------------------------------------------------------------- clique-set combinatorics
def tup(cliques):
    return [tuple(c) for c in cliques]


def canon(attrs_order, s):
    return tuple(a for a in attrs_order if a in s)


def maximal(cliques):
    cliques = tup(cliques)
    return [r for r in cliques if not any(set(r) < set(s) for s in cliques)]


def closure(cliques, attrs_order=ATTRS):
    """Regions = the input cliques closed under non-empty pairwise intersection (sorted by size, then name)."""
    regs = {tuple(c) for c in cliques}
    grew = True
    while grew:
        grew = False
        for r1, r2 in itertools.combinations(sorted(regs), 2):
            z = canon(attrs_order, set(r1) & set(r2))
            if z and z not in regs and not any(set(z) == set(r) for r in regs):
                regs.add(z)
                grew = True
    return sorted(regs, key=lambda r: (len(r), r))


def subset_pairs(regions):
    return [(p, r) for p in regions for r in regions if set(r) < set(p)]


def cover_edges(regions):
    """Hasse diagram of the region poset (parent -> child with no region strictly in between)."""
    return [(p, r) for p, r in subset_pairs(regions)
            if not any(set(r) < set(q) < set(p) for q in regions)]


def is_rip(cliques):
    """Running-intersection (junction tree exists for the maximal cliques): a maximum-weight spanning forest
    of the clique intersection graph has weight sum_v (#cliques containing v - 1)."""
    cl = maximal(cliques)
    cl = [c for i, c in enumerate(cl) if not any(set(c) == set(d) for d in cl[:i])]
    edges = sorted(((len(set(a) & set(b)), i, j) for (i, a), (j, b) in itertools.combinations(enumerate(cl), 2)
                    if set(a) & set(b)), reverse=True)
    comp = list(range(len(cl)))
    def find(i):
        while comp[i] != i:
            comp[i] = comp[comp[i]]
            i = comp[i]
        return i
    w = 0
    for wt, i, j in edges:
        a, b = find(i), find(j)
        if a != b:
            comp[a] = b
            w += wt
    need = sum(sum(v in c for c in cl) - 1 for v in set(sum(cl, ())))
    return w == need


def factor_graph_is_forest(cliques):
    """The bipartite variable/factor graph has no cycle (edges = sum of clique sizes; forest iff
    edges = nodes - components)."""
    cliques = tup(cliques)
    nodes = [('v', v) for v in sorted(set(sum(cliques, ())))] + [('f', i) for i in range(len(cliques))]
    idx = {n: k for k, n in enumerate(nodes)}
    comp = list(range(len(nodes)))
    def find(i):
        while comp[i] != i:
            comp[i] = comp[comp[i]]
            i = comp[i]
        return i
    for i, c in enumerate(cliques):
        for v in c:
            a, b = find(idx['f', i]), find(idx['v', v])
            if a == b:
                return False
            comp[a] = b
    return True


def region_diameter(cliques):
    """Crude upper bound on the number of sweeps information needs: number of regions."""
    return max(1, len(closure(cliques)))


# ----------------------------------------------------------------------------- dense tables
def expand(values, clique, attrs, shape):
    """values over `clique` (axes in clique order) -> broadcastable array over all `attrs`."""
    values = np.asarray(values, dtype=float)
    order = sorted(range(len(clique)), key=lambda k: attrs.index(clique[k]))
    v = np.transpose(values, order) if len(clique) > 1 else values
    full = [1] * len(attrs)
    for a in clique:
        full[attrs.index(a)] = shape[attrs.index(a)]
    return v.reshape(full)


def marg(P, attrs, sub):
    """Marginal of the dense table P (axes = attrs) onto `sub`, axes in the order of `sub`."""
    drop = tuple(i for i, a in enumerate(attrs) if a not in sub)
    M = P.sum(axis=drop) if drop else P
    kept = [a for a in attrs if a in sub]
    return np.transpose(M, [kept.index(a) for a in sub]) if len(sub) > 1 else M


def exact_joint(attrs, shape, pots, total):
    """total * normalised exp(sum of potentials); pots: {clique: array in clique order} (finite or -inf)."""
    attrs = list(attrs)
    L = np.zeros(shape)
    for c, v in pots.items():
        L = L + expand(v, tuple(c), attrs, list(shape))
    L = L - L.max()
    P = np.exp(L)
    return total * P / P.sum()


def table(f, want=None):
    """(attrs, ndarray) of an mbi Factor; axes permuted to `want` if given."""
    a = tuple(f.domain.attrs)
    v = np.asarray(f.values, dtype=float)
    if want is not None and tuple(want) != a:
        assert set(want) == set(a), (want, a)
        v = np.transpose(v, [a.index(x) for x in want])
        a = tuple(want)
    return a, v


def valid_table(v, total, rtol=1e-8):
    """finite, nonnegative, sums to total -> (ok, detail)"""
    v = np.asarray(v, dtype=float)
    fin = bool(np.all(np.isfinite(v)))
    nonneg = bool(fin and np.all(v >= 0))
    s = float(v.sum()) if fin else float('nan')
    ok_sum = bool(fin and abs(s - total) <= rtol * abs(total))
    return fin and nonneg and ok_sum, dict(finite=fin, nonnegative=nonneg, sum=s, total=total)


def draw_table(rng, shape, scale=1.0, kind='normal'):
    if kind == 'zero':
        return np.zeros(shape)
    if kind == 'spiky':       # a few strongly preferred cells
        v = rng.randn(*shape)
        v.flat[rng.randint(v.size)] += scale * 3
        return v
    return scale * rng.randn(*shape)


# ----------------------------------------------------------------------------- structure generators
def chain(n, k=2, attrs=ATTRS):
    """chain of k-cliques sharing k-1 attributes over n attributes"""
    return [tuple(attrs[i:i + k]) for i in range(n - k + 1)]


def star(n, attrs=ATTRS):
    return [(attrs[0], attrs[i]) for i in range(1, n)]


def cycle(n, attrs=ATTRS):
    return [tuple(sorted((attrs[i], attrs[(i + 1) % n]))) for i in range(n)]


def all_pairs(n, attrs=ATTRS):
    return [tuple(c) for c in itertools.combinations(attrs[:n], 2)]


def all_triples(n, attrs=ATTRS):
    return [tuple(c) for c in itertools.combinations(attrs[:n], 3)]


def random_junction_tree(rng, n_attrs, max_clique=3, p_disconnect=0.15, attrs=ATTRS):
    """RIP by construction: each new clique = a subset of one existing clique (possibly empty) + new attributes."""
    used = 0
    cliques = []
    while used < n_attrs:
        if cliques and rng.rand() > p_disconnect:
            base = cliques[rng.randint(len(cliques))]
            k = rng.randint(1, min(len(base), max_clique - 1) + 1)
            sep = list(rng.choice(len(base), size=k, replace=False))
            sep = [base[i] for i in sorted(sep)]
        else:
            sep = []
        room = max_clique - len(sep)
        new = rng.randint(1, min(room, n_attrs - used) + 1)
        c = canon(attrs, set(sep) | set(attrs[used:used + new]))
        used += new
        cliques.append(c)
    return cliques


def random_factor_tree(rng, n_attrs, max_clique=3, p_disconnect=0.15, p_unary=0.3, attrs=ATTRS):
    """Tree factor graph by construction: each new factor shares at most one variable with the factors so far;
    unary factors are leaves."""
    used = 0
    cliques = []
    while used < n_attrs:
        seen = sorted(set(sum(cliques, ())))
        sep = [seen[rng.randint(len(seen))]] if seen and rng.rand() > p_disconnect else []
        room = max_clique - len(sep)
        new = rng.randint(1, min(room, n_attrs - used) + 1)
        c = canon(attrs, set(sep) | set(attrs[used:used + new]))
        used += new
        if len(c) == 1 and (c in cliques):
            continue
        cliques.append(c)
    for a in attrs[:n_attrs]:
        if (a,) not in cliques and rng.rand() < p_unary:
            cliques.append((a,))
    return cliques


def random_cliques(rng, n_attrs, n_cliques, max_clique=3, attrs=ATTRS):
    out = []
    tries = 0
    while len(out) < n_cliques and tries < 100:
        tries += 1
        k = rng.randint(1, min(max_clique, n_attrs) + 1)
        c = canon(attrs, set(rng.choice(list(attrs[:n_attrs]), size=k, replace=False)))
        if c not in out:
            out.append(c)
    return out


def jl(cliques):
    """JSON form of a clique list"""
    return [list(c) for c in cliques]


# ----------------------------------------------------------------------------- measurements (C18, C19)
def l2_loss(tables, measurements):
    """0.5 * sum ||(Q x - y)/sigma||^2 with x = flattened table of the measured clique; tables: {clique: ndarray}."""
    loss = 0.0
    for Q, y, sigma, cl in measurements:
        x = np.asarray(tables[tuple(cl)], dtype=float).flatten()
        d = (np.asarray(Q @ x).ravel() - y) / sigma
        loss += 0.5 * float(d @ d)
    return loss


def estimate_total_independent(measurements):
    """Inverse-variance combination of the per-measurement unbiased estimates of the total (dense pseudo-inverse):
    for each measurement with 1 in the row space of Q, v = argmin ||v|| s.t. Q^T v = 1, estimate v.y, variance
    sigma^2 |v|^2; max(1, combination).  None when no measurement determines the total."""
    est, var = [], []
    for Q, y, sigma, cl in measurements:
        Qd = np.asarray(Q.todense()) if hasattr(Q, 'todense') else np.asarray(Q, dtype=float)
        o = np.ones(Qd.shape[1])
        v = np.linalg.pinv(Qd.T) @ o
        if np.allclose(Qd.T @ v, o):
            est.append(float(v @ y))
            var.append(float(sigma ** 2 * (v @ v)))
    if not est:
        return None
    est, var = np.array(est), np.array(var)
    V = 1.0 / np.sum(1.0 / var)
    return max(1.0, float(V * np.sum(est / var)))


# ----------------------------------------------------------------------------- C17: the convexified free-energy programme
def region_shape(r, attrs, shape):
    attrs = list(attrs)
    return tuple(shape[attrs.index(a)] for a in r)


def marg_matrix(p, r, attrs, shape):
    """0/1 matrix M (cells of r x cells of p, C order over the tuple's own axis order) with M @ vec(mu_p) = vec(mu_p projected on r)."""
    sp, sr = region_shape(p, attrs, shape), region_shape(r, attrs, shape)
    n_p = int(np.prod(sp))
    idx = np.indices(sp).reshape(len(p), -1)
    ridx = np.ravel_multi_index([idx[p.index(a)] for a in r], sr)
    M = np.zeros((int(np.prod(sr)), n_p))
    M[ridx, np.arange(n_p)] = 1.0
    return M


def layout(regions, attrs, shape):
    sizes = [int(np.prod(region_shape(r, attrs, shape))) for r in regions]
    offs = np.concatenate([[0], np.cumsum(sizes)]).astype(int)
    return sizes, offs


def constraint_matrix(regions, attrs, shape, pairs):
    """Rows: one normalisation row per region, then for every (p, r) in pairs and every cell of r the row
    (marginal of p on that cell) - (that cell of r).  Acts on the stacked vector of all region tables."""
    sizes, offs = layout(regions, attrs, shape)
    n = offs[-1]
    rows = []
    for i, r in enumerate(regions):
        e = np.zeros(n)
        e[offs[i]:offs[i + 1]] = 1.0
        rows.append(e)
    for p, r in pairs:
        i, j = regions.index(p), regions.index(r)
        M = marg_matrix(p, r, attrs, shape)
        blk = np.zeros((M.shape[0], n))
        blk[:, offs[i]:offs[i + 1]] = M
        blk[:, offs[j]:offs[j + 1]] -= np.eye(sizes[j])
        rows.extend(blk)
    return np.array(rows)


def free_energy(theta, p, regions):
    """sum_r <theta_r, p_r> + H(p_r)  (unit counting numbers); p_r probability tables."""
    F = 0.0
    for r in regions:
        q = np.asarray(p[r], dtype=float).ravel()
        t = np.asarray(theta[r], dtype=float).ravel()
        nz = q > 0
        F += float(t[nz] @ q[nz]) - float(np.sum(q[nz] * np.log(q[nz])))
    return F


def _lse(x):
    m = x.max()
    return m + np.log(np.exp(x - m).sum())


def dual_solve(theta, regions, attrs, shape, edges, maxiter=20000):
    """Independent solver of  max sum_r <theta_r,p_r> + H(p_r)  s.t. p_r in simplex, p_p projected on r = p_r for (p,r) in edges,
    through its Lagrangian dual  D(lam) = sum_r logsumexp(theta_r + sum_{(r,c)} M_rc^T lam_rc - sum_{(p,r)} lam_pr)  minimised by
    L-BFGS (scipy).  Every D(lam) is an upper bound on the primal optimum (weak duality).
    -> (D value, {r: p_r(lam)}, max infeasibility of p(lam))"""
    from scipy.optimize import minimize
    Ms = {(p, r): marg_matrix(p, r, attrs, shape) for p, r in edges}
    sizes = [Ms[e].shape[0] for e in edges]
    offs = np.concatenate([[0], np.cumsum(sizes)]).astype(int)
    th = {r: np.asarray(theta[r], dtype=float).ravel() for r in regions}

    def tables(lam):
        eta = {r: th[r].copy() for r in regions}
        for k, (p, r) in enumerate(edges):
            l = lam[offs[k]:offs[k + 1]]
            eta[p] = eta[p] + Ms[p, r].T @ l
            eta[r] = eta[r] - l
        D = 0.0
        P = {}
        for r in regions:
            z = _lse(eta[r])
            D += z
            P[r] = np.exp(eta[r] - z)
        return D, P

    def fg(lam):
        D, P = tables(lam)
        g = np.concatenate([Ms[p, r] @ P[p] - P[r] for p, r in edges]) if edges else np.zeros(0)
        return D, g

    lam = np.zeros(offs[-1])
    if len(lam):
        res = minimize(fg, lam, jac=True, method='L-BFGS-B', options=dict(maxiter=maxiter, maxfun=4 * maxiter, ftol=1e-16, gtol=1e-11, maxcor=50))
        lam = res.x
        # a few damped Newton steps on the (singular, hence regularised) dual Hessian to polish
        for _ in range(20):
            D, g = fg(lam)
            if np.abs(g).max() < 1e-13:
                break
            eps = 1e-6
            H = np.zeros((len(lam), len(lam)))
            # finite-difference-free Hessian: d g / d lam = A diag-cov A^T assembled region by region
            Dv, P = tables(lam)
            for r in regions:
                cols = []
                for k, (p, c) in enumerate(edges):
                    if p == r:
                        cols.append((k, Ms[p, c]))
                    elif c == r:
                        cols.append((k, -np.eye(len(P[r]))))
                if not cols:
                    continue
                C = np.diag(P[r]) - np.outer(P[r], P[r])
                for k1, B1 in cols:
                    for k2, B2 in cols:
                        H[offs[k1]:offs[k1 + 1], offs[k2]:offs[k2 + 1]] += B1 @ C @ B2.T
            step = np.linalg.lstsq(H + 1e-12 * np.eye(len(lam)), g, rcond=1e-12)[0]
            t = 1.0
            while t > 1e-4:
                D2, g2 = fg(lam - t * step)
                if D2 <= D + 1e-15 and np.abs(g2).max() < np.abs(g).max():
                    lam = lam - t * step
                    break
                t *= 0.5
            else:
                break
    D, P = tables(lam)
    infeas = max([float(np.abs(Ms[p, r] @ P[p] - P[r]).max()) for p, r in edges] + [0.0])
    return D, {r: P[r].reshape(region_shape(r, attrs, shape)) for r in regions}, infeas


# ----------------------------------------------------------------------------- C18: exact optimum for disjoint cliques
def project_simplex(v, total):
    """Euclidean projection of v onto {x >= 0, sum x = total} (sort-based)."""
    n = v.size
    u = np.sort(v)[::-1]
    css = np.cumsum(u) - total
    k = np.nonzero(u - css / np.arange(1, n + 1) > 0)[0][-1]
    tau = css[k] / (k + 1.0)
    return np.maximum(v - tau, 0.0)


def simplex_least_squares(Qs, ys, sigmas, total, iters=20000):
    """min 0.5 * sum_i ||(Q_i x - y_i)/sigma_i||^2 over {x >= 0, sum x = total} by accelerated projected gradient
    (dense, tiny).  -> (x, loss, optimality gap bound from the Frank-Wolfe certificate)."""
    A = np.vstack([(np.asarray(Q.todense()) if hasattr(Q, 'todense') else np.asarray(Q, dtype=float)) / s for Q, s in zip(Qs, sigmas)])
    b = np.concatenate([np.asarray(y, dtype=float) / s for y, s in zip(ys, sigmas)])
    n = A.shape[1]
    H = A.T @ A
    Lip = max(float(np.linalg.eigvalsh(H)[-1]), 1e-12)
    x = np.full(n, total / n)
    z, t = x.copy(), 1.0
    f = lambda u: 0.5 * float(np.sum((A @ u - b) ** 2))
    for _ in range(iters):
        g = H @ z - A.T @ b
        xn = project_simplex(z - g / Lip, total)
        tn = 0.5 * (1 + np.sqrt(1 + 4 * t * t))
        z = xn + (t - 1) / tn * (xn - x)
        if f(xn) > f(x):                 # restart
            z, tn = xn.copy(), 1.0
        x, t = xn, tn
    g = H @ x - A.T @ b
    gap = float(g @ x - total * g.min())   # f(x) - f* <= <g, x - s> for the best vertex s
    return x, f(x), gap
