"""Shared helpers of the bounded drivers C08 / C10 / C11 / C13 (estimation + model answers).

Everything here is harness-side and independent of the code under test: joint tables and
marginals are computed on plain numpy arrays by attribute *name*, never through mbi.Factor
operations.  The only things read from mbi objects are `.values`, `.domain.attrs` and
`.domain.shape` of stored factors / returned answers.
"""
import itertools, os
# the runner forks 16 workers; the tables here are tiny, so BLAS worker threads only cause contention
for _v in ('OPENBLAS_NUM_THREADS', 'OMP_NUM_THREADS', 'MKL_NUM_THREADS'):
    os.environ.setdefault(_v, '1')
import numpy as np

ATTRS = ['a', 'b', 'c', 'd', 'e']


# ------------------------------------------------------------------ domains / projections
def mk_domain(dom):
    """dom = [['a', 2], ['b', 3], ...] -> mbi.Domain (imported lazily from the tree under verification)."""
    from mbi import Domain
    return Domain([a for a, _ in dom], [int(n) for _, n in dom])


def dom_attrs(dom):
    return [a for a, _ in dom]


def dom_shape(dom):
    return tuple(int(n) for _, n in dom)


def sizes(dom, attrs):
    d = dict((a, int(n)) for a, n in dom)
    return tuple(d[a] for a in attrs)


def ncells(dom, attrs):
    n = 1
    for s in sizes(dom, attrs):
        n *= s
    return n


def rand_dom(rng, k=None, lo=2, hi=4):
    k = int(rng.randint(2, 5)) if k is None else k
    return [[ATTRS[i], int(rng.randint(lo, hi + 1))] for i in range(k)]


def all_subsets(attrs, min_size=1):
    out = []
    for r in range(min_size, len(attrs) + 1):
        out.extend(itertools.combinations(attrs, r))
    return out


# named clique structures over the first k attributes (only those that fit are offered)
def structures(k):
    A = ATTRS
    s = {'single': [[A[0], A[1]]], 'oneway': [[A[0]], [A[1]]]}
    if k >= 3:
        s.update({
            'chain': [[A[0], A[1]], [A[1], A[2]]],
            'nested': [[A[0], A[1], A[2]], [A[0], A[1]], [A[1]]],
            'cycle': [[A[0], A[1]], [A[1], A[2]], [A[0], A[2]]],
            'disconnected': [[A[0], A[1]], [A[2]]],
            'overlap': [[A[0], A[1]], [A[1]], [A[1], A[2]], [A[2]]],
            'triple': [[A[0], A[1], A[2]]],
        })
    if k >= 4:
        s.update({
            'chain4': [[A[0], A[1]], [A[1], A[2]], [A[2], A[3]]],
            'star': [[A[0], A[1]], [A[0], A[2]], [A[0], A[3]]],
            'cycle4': [[A[0], A[1]], [A[1], A[2]], [A[2], A[3]], [A[0], A[3]]],
            'tri+tail': [[A[0], A[1], A[2]], [A[2], A[3]]],
            'two-islands': [[A[0], A[1]], [A[2], A[3]]],
            'partial': [[A[1], A[2]]],
        })
    if k >= 5:
        # branching junction trees: a depth-first listing of the cliques backtracks, so the clique listed just before is not the tree parent
        s.update({
            'branch': [[A[0], A[1]], [A[1], A[2]], [A[2], A[3]], [A[1], A[4]]],
            'fork': [[A[0], A[1], A[2]], [A[2], A[3]], [A[3], A[4]], [A[1], A[4]][:1] + [A[3]]],
        })
    return s


# ------------------------------------------------------------------ numpy-by-name oracle
def arr_marginal(table, attrs, onto):
    """Marginal of `table` (axes labelled `attrs`) onto `onto` (in that order)."""
    attrs = list(attrs)
    drop = tuple(i for i, a in enumerate(attrs) if a not in onto)
    t = np.sum(table, axis=drop) if drop else np.asarray(table)
    rest = [a for a in attrs if a in onto]
    return np.transpose(t, [rest.index(a) for a in onto])


def factor_array(f, attrs=None):
    """Values of an mbi Factor as an ndarray whose axes follow `attrs` (default: the factor's own order)."""
    fa = list(f.domain.attrs)
    v = np.asarray(f.values, dtype=float).reshape(tuple(f.domain.shape))
    if attrs is None:
        return v, tuple(fa)
    assert set(attrs) == set(fa), 'answer is over %s, expected %s' % (fa, list(attrs))
    return np.transpose(v, [fa.index(a) for a in attrs]), tuple(attrs)


def joint_log(model):
    """Sum of all stored potentials expanded by attribute name over the full domain (log space)."""
    attrs = list(model.domain.attrs)
    shape = tuple(model.domain.shape)
    logp = np.zeros(shape)
    with np.errstate(all='ignore'):
        for cl in model.potentials:
            f = model.potentials[cl]
            fa = list(f.domain.attrs)
            v = np.asarray(f.values, dtype=float).reshape(tuple(f.domain.shape))
            order = sorted(range(len(fa)), key=lambda i: attrs.index(fa[i]))
            v = np.transpose(v, order)
            fin = v[np.isfinite(v)]
            if fin.size:
                v = v - fin.max()       # constant shift per factor: same distribution, keeps precision when potentials are huge
            shp = [shape[i] if attrs[i] in fa else 1 for i in range(len(attrs))]
            logp = logp + v.reshape(shp)
    return logp


def joint_table(model):
    """The distribution implied by the stored parameters: exp(sum of potentials), normalised to model.total."""
    logp = joint_log(model)
    with np.errstate(all='ignore'):
        m = np.max(logp)
        if not np.isfinite(m):
            return np.full(logp.shape, np.nan)
        p = np.exp(logp - m)
        return p / p.sum() * float(model.total)


def close(x, y, rtol, atol):
    x, y = np.asarray(x, dtype=float), np.asarray(y, dtype=float)
    if x.shape != y.shape:
        return False
    if not (np.all(np.isfinite(x)) and np.all(np.isfinite(y))):
        return False
    return bool(np.all(np.abs(x - y) <= atol + rtol * np.maximum(np.abs(x), np.abs(y))))


def maxdiff(x, y):
    x, y = np.asarray(x, dtype=float), np.asarray(y, dtype=float)
    if x.shape != y.shape:
        return float('inf')
    with np.errstate(all='ignore'):
        d = np.abs(x - y)
    return float(np.nanmax(d)) if d.size else 0.0


# ------------------------------------------------------------------ measurements
def truth_table(rng, shape, kind='dirichlet', n=100.0):
    size = int(np.prod(shape))
    if kind == 'uniform':
        p = np.ones(size) / size
    elif kind == 'skewed':
        p = rng.dirichlet(np.ones(size) * 0.3)
    else:
        p = rng.dirichlet(np.ones(size) * 2.0)
    return (p * n).reshape(shape)


def make_Q(kind, n, rng):
    """Query matrices of the kinds accepted by FactoredInference (None = identity default)."""
    from scipy import sparse
    if kind == 'N':
        return None, np.eye(n)
    if kind == 'I':
        A = np.eye(n)
        return A, A
    if kind == 'W':                       # scaled identity
        A = np.eye(n) * float(rng.choice([0.5, 2.0, 3.0]))
        return A, A
    if kind == 'P':                       # prefix sums
        A = np.tril(np.ones((n, n)))
        return A, A
    if kind == 'D':                       # dense random, fewer / more rows than columns
        r = int(rng.randint(max(1, n - 2), n + 3))
        A = rng.normal(size=(r, n))
        return A, A
    if kind == 'T':                       # identity stacked with the total query
        A = np.vstack([np.eye(n), np.ones((1, n))])
        return A, A
    if kind == 'S':                       # scipy sparse
        A = np.eye(n) + (rng.rand(n, n) < 0.3) * rng.randint(1, 3, size=(n, n))
        return sparse.csr_matrix(A), A
    if kind == 'E':                       # sparse identity
        return sparse.eye(n, format='csr'), np.eye(n)
    raise ValueError(kind)


def build_measurements(dom, specs, truth, rng):
    """specs: list of dict(proj=[..], q=kind, noise=float, exact=bool, projtype='tuple'|'list'|'str').
    -> (measurements for estimate, dense copies [(A, y, noise, proj_tuple)] for harness-side loss oracles)."""
    attrs = dom_attrs(dom)
    ms, dense = [], []
    for s in specs:
        proj = tuple(s['proj'])
        n = ncells(dom, proj)
        x = arr_marginal(truth, attrs, proj).reshape(-1)
        Q, A = make_Q(s.get('q', 'I'), n, rng)
        noise = float(s.get('noise', 1.0))
        y = A @ x
        if s.get('y') is not None:
            y = np.array(s['y'], dtype=float)          # explicit answers (regression cases of known findings)
        elif not s.get('exact', False):
            y = y + noise * rng.normal(size=A.shape[0])
        y = np.array(y, dtype=float)
        pt = s.get('projtype', 'tuple')
        p = proj if pt == 'tuple' else (list(proj) if pt == 'list' else (proj[0] if len(proj) == 1 else proj))
        ms.append((Q, y, noise, p))
        dense.append((A.copy(), y.copy(), noise, proj))
    return ms, dense


def rand_specs(rng, cliques, exact=False, plain=False):
    """Measurement specs for a list of projections with random query kinds / noise levels."""
    kinds = ['I', 'N', 'E'] if plain else ['I', 'N', 'W', 'P', 'D', 'T', 'S', 'E']
    out = []
    for cl in cliques:
        out.append(dict(proj=list(cl), q=str(rng.choice(kinds)), noise=float(rng.choice([0.5, 1.0, 2.0, 5.0])),
                        exact=bool(exact), projtype=str(rng.choice(['tuple', 'tuple', 'list', 'str']))))
    return out


def loss_of_answers(answer, dense):
    """0.5 * sum ||(A x_proj - y)/noise||^2 where x_proj = answer(proj) flattened in proj order."""
    L = 0.0
    for A, y, noise, proj in dense:
        x = answer(proj).reshape(-1)
        d = (A @ x - y) / noise
        L += 0.5 * float(d @ d)
    return L


# ------------------------------------------------------------------ structural zeros
def zeros_dict(zspec):
    """[[['a','b'], [[0,1],[1,2]]], ...] -> {('a','b'): [(0,1),(1,2)]}"""
    return {tuple(cl): [tuple(int(v) for v in c) for c in cells] for cl, cells in zspec}


def zero_mask(dom, zspec):
    """Boolean table over the full domain: True where some declared zero cell applies."""
    attrs, shape = dom_attrs(dom), dom_shape(dom)
    mask = np.zeros(shape, dtype=bool)
    for cl, cells in zspec:
        for c in cells:
            idx = [slice(None)] * len(attrs)
            for a, v in zip(cl, c):
                idx[attrs.index(a)] = int(v)
            mask[tuple(idx)] = True
    return mask


def forced_zero(dom, zspec, onto):
    """Cells of the table over `onto` all of whose completions are declared zero by ONE declared clique
    (a sound subset of the cells that must carry no mass): boolean array in `onto` order."""
    attrs = dom_attrs(dom)
    out = np.zeros(sizes(dom, onto), dtype=bool)
    for cl, cells in zspec:
        cl = list(cl)
        m = np.zeros(sizes(dom, cl), dtype=bool)
        for c in cells:
            m[tuple(int(v) for v in c)] = True
        drop = tuple(i for i, a in enumerate(cl) if a not in onto)
        keep = [a for a in cl if a in onto]
        red = np.all(m, axis=drop) if drop else m          # over `keep`, in cl order
        if not keep:
            continue                                        # would mean every cell of cl is declared (never generated)
        ko = [a for a in onto if a in keep]
        red = np.transpose(red, [keep.index(a) for a in ko])
        shp = [red.shape[ko.index(a)] if a in keep else 1 for a in onto]
        out |= np.broadcast_to(red.reshape(shp), out.shape)
    return out


def rand_zero_cells(rng, dom, cl, how='few'):
    """A non-empty proper subset of the cells of clique `cl`."""
    shp = sizes(dom, cl)
    cells = list(itertools.product(*[range(s) for s in shp]))
    if how == 'slice' and len(cl) >= 2:
        # all cells with first attribute == v: makes a value of a sub-attribute impossible
        v = int(rng.randint(shp[0]))
        pick = [c for c in cells if c[0] == v]
    else:
        k = 1 if how == 'one' else int(rng.randint(1, max(2, len(cells) // 2)))
        idx = rng.choice(len(cells), size=min(k, len(cells) - 1), replace=False)
        pick = [cells[i] for i in sorted(idx)]
    return [[int(v) for v in c] for c in pick]


def counts_table(df, dom, attrs):
    """Contingency table of the records over `attrs` by a plain counting loop (np.add.at), plus range check."""
    shp = sizes(dom, attrs)
    t = np.zeros(shp, dtype=np.int64)
    cols = [np.asarray(df[a].values) for a in attrs]
    ok = all(np.all((c >= 0) & (c < s)) for c, s in zip(cols, shp)) if len(df) else True
    if ok and len(df):
        np.add.at(t, tuple(c.astype(np.int64) for c in cols), 1)
    return t, ok
