"""pv — contract-based deductive verification machinery for private-pgm (see /verif/DESIGN.md)."""
