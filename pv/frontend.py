"""Front end of the deductive tier: the verified text is the code that runs.

Every run re-reads the file from the tree under verification, parses it with `ast` and selects
the function by qualified name.  Nothing is imported, so modules whose dependencies are
missing (hdmm, autodp, jax, cvxopt) are still verified.  The hash of the function's source
segment goes into the evidence.

What extraction drops (and nothing else): docstrings, comments, bare `print(...)` expression
statements and `warnings.warn(...)` calls; decorators are only inspected for @staticmethod /
@property.
"""
import ast, hashlib, os
from . import env

_cache = {}


class MissingAnchor(Exception):
    """The function / loop a contract is anchored to is not present in the tree."""


def module_ast(rel):
    path = env.repo_path(rel)
    st = os.stat(path)
    key = (path, st.st_mtime_ns, st.st_size)
    if key not in _cache:
        src = open(path).read()
        _cache[key] = (src, ast.parse(src, filename=path))
    return _cache[key]


def get_function(rel, qualname):
    """qualname: 'f', 'Class.method' or 'f.inner' (nested def).  Returns (node, src_segment, sha)."""
    try:
        src, tree = module_ast(rel)
    except (OSError, SyntaxError) as e:
        raise MissingAnchor('%s: %s' % (rel, e))
    node = tree
    for part in qualname.split('.'):
        found = None
        for n in ast.walk(node) if not isinstance(node, (ast.Module, ast.ClassDef)) else node.body:
            if isinstance(n, (ast.FunctionDef, ast.ClassDef)) and n.name == part and n is not node:
                found = n
                break
        if found is None:
            raise MissingAnchor('%s::%s (no %r)' % (rel, qualname, part))
        node = found
    seg = ast.get_source_segment(src, node)
    sha = hashlib.sha256(seg.encode()).hexdigest()[:16]
    return node, seg, sha


def get_class(rel, name):
    return get_function(rel, name)


def is_static(fn):
    return any(isinstance(d, ast.Name) and d.id == 'staticmethod' for d in fn.decorator_list)


def strip_noise(stmts):
    """Drop docstrings, print(...) and warnings.warn(...) expression statements."""
    out = []
    for s in stmts:
        if isinstance(s, ast.Expr):
            v = s.value
            if isinstance(v, ast.Constant) and isinstance(v.value, str):
                continue
            if isinstance(v, ast.Call):
                f = ast.unparse(v.func)
                if f in ('print', 'warnings.warn'):
                    continue
        out.append(s)
    return out
