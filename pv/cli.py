import argparse, importlib, json, os, sys
from . import env, runner


def main():
    ap = argparse.ArgumentParser()
    ap.add_argument('prop')
    ap.add_argument('--tier', default=os.environ.get('VERIF_TIER', 'quick'), choices=['quick', 'thorough'])
    ap.add_argument('--replay')
    ap.add_argument('--record-expected', action='store_true')
    a = ap.parse_args()
    mod = importlib.import_module('pv.props.' + a.prop)
    prop = mod.PROP
    from . import meta
    meta.apply(prop)
    if a.replay:
        sys.exit(runner.replay_file(prop, a.replay))
    if a.record_expected:
        reps = prop.deductive('quick')
        names = sorted({o.meta.get('base', o.name) for r in reps for o in r.obligations})
        os.makedirs(os.path.join(env.VERIF, 'pv', 'expected'), exist_ok=True)
        json.dump(names, open(os.path.join(env.VERIF, 'pv', 'expected', a.prop + '.json'), 'w'), indent=0)
        lp = os.path.join(env.VERIF, 'pv', 'expected', 'loops.json')
        loops = json.load(open(lp)) if os.path.exists(lp) else {}
        for r in reps:
            if getattr(r, 'loop_headers', None):
                loops['%s::%s' % (r.rel, r.qual)] = r.loop_headers
        json.dump(loops, open(lp, 'w'), indent=0, sort_keys=True)
        print('recorded %d expected obligations' % len(names))
        return
    sys.exit(runner.run_property(prop, a.tier))


if __name__ == '__main__':
    try:
        main()
    except SystemExit:
        raise
    except BaseException as e:      # a crash of the checker is never reported as a violation (exit 1)
        import traceback
        traceback.print_exc()
        print('CHECK-CRASH %s: %s' % (type(e).__name__, e))
        sys.exit(3)
