"""Per-property description of the deciding method (deductive tier) — merged into each Prop by pv.cli before a run.
The bounded-tier descriptions stay in the property modules."""

DED = 'contract-based deductive verification: VCs generated from the real AST under sidecar contracts (pv/vc, pv/contracts) and discharged by z3 (cvc5 for z3 unknowns)'

META = {
 'C01': dict(technique=DED + ': pointwise extended-real contract of Factor.__sub__ (the -inf-aware message division); final normalisation of belief_propagation under the calibration lemma; exactness of BP decided by a bounded run-time contract against the explicit joint',
             ded='Factor.__sub__ under a pointwise extended-real contract: a structural zero in the divisor leaves the dividend unchanged, -inf persists, NaN only from NaN or inf-inf operands (for every cell value). '
                 'belief_propagation: given the calibration lemma L-cal (ASSUMED: after the message schedule all clique beliefs share one exp-sum Z), every clique table is exp(belief + log(total) - log Z), is stored once per clique and sums to self.total; with logZ=True the result is log Z. '
                 'Sum-product exactness on arbitrary junction trees is not SMT-dischargeable (inductive sub-tree invariant over exponentially large sums) and is decided bounded.',
             trusted=['numpy IEEE semantics of ==, unary -, +, np.where on one arbitrary cell (written out in pv/contracts/extsub.py)', 'alignment of operand axes (C14 invariant)',
                      'ASSUMED L-cal (calibration: after a valid message schedule all clique beliefs have the same exp-sum) - this IS the sum-product theorem; it is what the bounded tier decides on explicit joints',
                      'exp/log identities over the reals (normalisation idiom)']),
 'C02': dict(technique=DED + ': call-site contracts of GraphicalModel.project (requested tuple reaches Factor.project on both paths, total passed to VE) and the normalisation idiom of variable elimination; equality with the explicit joint decided bounded',
             ded='GraphicalModel.project: on every path the answer went through exactly one <factor>.project(attrs) for the requested tuple (a path returning a stored table as it is fails), belief_propagation(logZ=True) returns log Z under L-cal (krondot divides by it), VE is normalised to self.total and eliminates exactly the other attributes; '
                 'variable_elimination_logspace returns a table summing to total (L-norm); GraphicalModel.datavector (the full-vector query): the table on the covered attributes sums to 1, expansion onto the whole domain multiplies the sum by the ratio of cell counts, the weight undoes it and the result sums to self.total.',
             trusted=['exp/log identities over the reals (normalisation idiom)', 'Factor.project returns axes in the requested order (proved in C14)']),
 'C03': dict(technique=DED + ' for the Armijo acceptance test and the one-cell instance of the objective (_marginal_loss: gradient = derivative of the loss); attainment of the global optimum is a bounded run-time contract (certified Frank-Wolfe bracket)',
             ded='mirror_descent: a line-search step is accepted exactly when the decrease of the candidate computed from omega - alpha*dL is >= 0.5*alpha*<dL, nu - mu> (branch-site contract). '
                 'Convergence of three floating-point solvers "given enough iterations" is outside deductive reach (not applicable at clause level).',
             trusted=['belief_propagation, _marginal_loss, dot are deterministic side-effect-free callees']),
 'C04': dict(technique=DED + ': loop invariants with quantified facts for fix_measurements, exactly-once grouping in _setup, relational clause that _lipschitz and _setup select the same clique; loss and gradient of _marginal_loss in the one-cell instance (gradient term = derivative of loss term, both metrics); the n-dimensional formulas by bounded finite differences',
             ded='fix_measurements: same length and order, proj str/list/tuple normalised, None -> identity of the right size, y and noise untouched (forall k, by loop invariant). '
                 '_setup: each measurement appended to at most one group, as itself, under the first containing clique of the size-sorted clique list. '
                 '_lipschitz: each measurement accumulated at most once under the first containing clique of the same sorted list (hence the same clique as _setup), and what is added is lambda_max(Q_k^T Q_k)*|clique|/|proj|/noise_k^2 computed from that measurement\'s own matrix (value-level: real arithmetic, so equivalent spellings verify). '
                 '_marginal_loss in the one-cell instance (all operands 1x1): loss = sum 0.5((Qx-y)/noise)^2 resp. sum |Qx-y|/noise and each gradient contribution is its derivative, for all real Q, x, y, noise > 0, any number of cliques and measurements (loop invariants); a refuted instance is replayed on the real method with 1x1 arrays against a finite difference.',
             trusted=['sorted / set / sparse.eye / domain.size are deterministic callees', 'L-spec (eigenvalue sub-additivity and the marginalisation bound) turning the per-clique sums into a Hessian bound: assumed, exercised bounded']),
 'C05': dict(level='proof', technique=DED + ': ghost privacy ledger (zCDP / pure-DP) as postcondition and loop invariant of every mechanism function, sensitivities as ghost attributes of private values',
             ded='MST, measure, select, compress_domain, transform_data; mwem_pgm (4 parameter spellings x noise kinds, bounded flag symbolic), worst_approximated; AIM.run, AIM.worst_approximated, Mechanism.__init__; adagrid (both split modes), select: '
                 'ledger <= cdp_rho(eps, delta) (resp. <= eps in Laplace mode) at every normal return, for all datasets, neighbours and random outcomes (the proof never inspects them).',
             trusted=['L-dp: Gaussian rho = Delta2^2/(2 sigma^2); Laplace eps = Delta1/b; exponential mechanism with log-odds eps/(2 Delta) is eps-DP and eps^2/8-zCDP; adaptive composition adds; post-processing is free; rho-zCDP => (eps, cdp_delta(rho, eps))-DP',
                      'L-sens: a marginal count vector has L1 = L2 sensitivity 1 under add/remove, (2, sqrt 2) under replace; the L1 error against a public vector is 1-Lipschitz',
                      'C20 site contracts of the selection primitives and of Mechanism.gaussian_noise (proved there)', 'cdp_rho >= 0 (proved in C07)',
                      'extern contract of dict: when every key is stored once, max(d.values()) is the maximum of the values stored (AIM.worst_approximated)',
                      'ASSUMED: stacked Adaptive-Grid query matrices have column 2-norm <= 1 ("sensitivity 1 by construction"), enforced at run time by the bounded tier',
                      'counting lemma count_len_lt (elementary), sumsq scaling and closed form for np.ones (lemmas of the sequence theory)'],
             assumptions=['floats are mathematical reals: every "<= rho" is proved up to rounding',
                          'partial correctness: a run that raises releases nothing (AIM with rounds < 0.9*#one-way marginals overspends internally and then raises before returning; sqrt of a negative remaining budget is modelled as abort there)',
                          'IEEE division-by-zero sites assumed away: aim.py `1/(<const>*remaining)` (remaining == 0 gives sigma = inf, eps = 0), adaptive_grid.py `0.5/rho_step_1`, `0.5/rho_step_3` (rho == 0)']),
 'C06': dict(level='proof', technique=DED + ': information-flow (taint) obligations on the same symbolic execution as C05: branch conditions, loop bounds, filters, noise scales/sizes, estimate() arguments and return values are public',
             ded='every if/while condition, loop bound, comprehension filter, scale/size of a noise draw, candidate count of a selection, argument of FactoredInference.estimate and returned value of each mechanism function is public; '
                 'private values reach only release operands and selection scores; Dataset.records is public exactly under replace adjacency.',
             trusted=['callees without contract do not mutate caller-visible objects and return values tainted by all arguments (havoc rule)', 'numpy.random primitives are the only sources of randomness recognised as releases'],
             assumptions=['implicit flows through exceptions are not tracked (a raising run returns nothing)']),
 'C08': dict(technique=DED + ': loop invariant mu == BP(theta) (uninterpreted BP) through mirror descent; potentials == mle(marginals) at the RDA/IG exits; validity of answers by bounded run-time contract',
             ded='mirror_descent: stored marginals are belief_propagation(stored potentials) at every exit that stores marginals (inner and outer loop invariants, zero-iteration and early-exit paths). '
                 'dual_averaging / interior_gradient: stored potentials are mle(stored marginals). GraphicalModel.__init__: cliques, schedule, separators, neighbours and elimination order are those of one junction tree built from the arguments, the cliques in the order the tree returns them (the order mle\'s factorisation is valid for).',
             trusted=['L-mle (textbook): for globally consistent marginals on a junction tree in running-intersection order, BP(mle(mu)) = mu — assumed, exercised bounded', 'belief_propagation, mle, _marginal_loss deterministic']),
 'C09': dict(technique=DED + ': call-site contracts on the four copies of the total estimation (value passed to the model constructor / returned; appended variance and estimate terms)',
             ded='a caller-supplied total reaches the model constructor unchanged; otherwise the value is 1 when no measurement qualifies and max(1, (1/sum(1/v)) * sum(e/v)) with v = noise^2 <w,w>, e = <w,y>, w = lsmr(Q^T, 1)[0] — for every measurement list, in FactoredInference._setup, LocalInference._setup and both estimate_total copies.',
             trusted=['ASSUMED extern contract: lsmr returns the minimum-norm least-squares solution (refuted for the default maxiter on the pre-fix tree by the bounded tier: see known_findings C09)', 'np.dot / np.sum / np.allclose deterministic']),
 'C10': dict(technique=DED + ': abstract predicates carries/finite/zeroed with the extended-real algebra of whole parameter vectors; loop invariants of MD, RDA, IG',
             ded='the stored parameters carry -inf at every declared cell (MD) and the stored marginals are zero there (MD, RDA, IG) at every exit, by loop invariants over the solvers; '
                 'RDA needs the re-application of the structural-zero factor after rebuilding theta (the pre-fix tree fails this obligation). _setup installs potentials that carry the zeros on the cold and the warm-start path. Cell-level contracts of the Factor arithmetic behind the vector algebra (17 obligations).',
             trusted=['A4 (BP-zero: parameters carrying -inf give marginals that are zero there) and A5 (finite gradient) of pv/contracts/inference.py: assumed, exercised by the bounded tier',
                      'A1-A3, A6-A8 (extended-real algebra of +, scalar *, += with the structural-zero factor) are established per cell on the real Factor.__add__/__mul__/__rmul__/__radd__/__iadd__ (pv/contracts/cellalg.py) and for - in C01; '
                      'that CliqueVector operators apply the Factor operator clique by clique (one-line dict comprehensions) and that every structural-zero clique has a containing model clique is read off the code, not under contract']),
 'C11': dict(technique=DED + ': row-count postcondition of the inner synthetic_col under a sum abstraction of numpy arrays; frame obligations (the array synthetic_col rescales in place is private to the call: returns-fresh contracts of GraphicalModel.project, Factor.project/sum/exp, variable_elimination_logspace, alias contracts of transpose/datavector); domain/zero-support/rounding-error clauses by bounded run-time contract',
             ded='synthetic_col (round and sample mode): exactly `total` entries are produced, for all count vectors and totals. '
                 'synthetic_data updates in place only arrays allocated in the same call; GraphicalModel.project returns a newly allocated factor on every path (never the cached marginal), so generation cannot change the model a later call realises.',
             trusted=['numpy extern contracts on sums: scaling, np.modf, distinct-index increment, np.repeat length (pv/contracts/synth.py)'],
             assumptions=['the sampling-distribution clause (sample mode follows the model) is statistical: not applicable to this technique, only a loose bounded sanity check']),
 'C12': dict(technique=DED + ': site contracts for the message-dependency relation, spanning-tree weights and fill-in; running intersection decided by exhaustive bounded enumeration (<= 5 attributes x all orders)',
             ded='mp_order adds a dependency edge exactly for (k,i) -> (i,j), k != j, over all message pairs and returns the topological sort of that digraph; _make_tree uses the given order unchanged and weights candidate edges by minus the separator size; _triangulated adds the fill-in and removes the eliminated node.',
             trusted=['networkx: topological_sort is a linear extension listing every node once; minimum_spanning_tree; find_cliques', 'chordality of the fill-in graph and the max-weight-spanning-tree theorem (graph theory, not SMT-dischargeable): bounded exhaustive check']),
 'C13': dict(technique='contract-based frame / definite-assignment obligations decided by a flow analysis of the real AST (pv/vc/frames.py); histories compared with a fresh estimator in the bounded tier',
             ded='def-before-use: every read of estimator state that survives between calls (model, groups) is preceded by an assignment in the same estimate() call, or guarded by warm_start. '
                 'State created in __init__ but updated in place later (self.cache[k] = v, self.groups[cl].append) counts as surviving state. '
                 'owned-target: every in-place update in estimate, _setup, _marginal_loss, the three solvers, belief_propagation, mle, project, synthetic_data, combine, active targets an object allocated in the same activation. '
                 'returns-fresh: 24 Factor / CliqueVector / GraphicalModel methods that callers treat as allocators return newly allocated storage on every path (transpose and datavector(flatten=False) alias the receiver and nothing else). '
                 'stores-fresh: the model object _setup stores in self.model (and estimate returns) is allocated in that call, and no other method binds self.model: a later call cannot update an earlier result.',
             trusted=['numpy / scipy / pandas / builtin allocators (np.zeros, np.sum incl. axis=(), ndarray.copy/flatten/astype, arithmetic, comprehensions) return fresh objects; np.broadcast_to returns a read-only view (an in-place update through it raises); numpy views of fresh arrays are owned'],
             assumptions=['the solver-options dict (`options`) is written by design (its callback key); outside the property']),
 'C14': dict(technique=DED + ': Factor representation invariant (axis p labelled domain.attrs[p], size domain.shape[p]) preserved by expand, transpose, +, *, logaddexp, -, /, +=, *=, exp, log, copy, sum, logsumexp, max, project over a label-level model of numpy',
             ded='for factors of every rank and attribute order: the constructor preconditions (axis labelled by the attribute at that position / same size) and numpy preconditions (moveaxis destinations in range and distinct, broadcast sizes, operand axes aligned) hold at every call site of the 16 listed methods. '
                 'sum/logsumexp/max(attrs): the result lives on exactly the attributes of self not in attrs, in the order of self, with the invariant re-established — carried by the lemma "position p is a removed axis iff self.attrs[p] is a marginalised attribute", discharged as an obligation of its own (from the contract of Domain.axes, distinctness and the membership axioms) and by model-based instantiation. '
                 'project(attrs): axes in the requested order, sizes of self, invariant (modular over the contracts of marginalize, sum/logsumexp and transpose). condition and datavector: bounded only.',
             trusted=['label-level extern contracts of reshape / moveaxis / broadcast_to / elementwise ops (pv/vc/ndlabels.py)', 'Domain contracts of C15 (incl. distinctness and config law of Domain.merge results, proved there)',
                      'sequence-theory lemmas: pigeonhole, membership in concatenations / equal sequences; selection uniqueness (two strictly increasing enumerations of the same positions coincide) when Domain.marginalize\'s result is introduced over numpy\'s kept positions']),
 'C15': dict(technique=DED + ': Domain algebra over symbolic attribute sequences of every length (membership, first index, order-preserving selection, concatenation, products); Dataset.project by site contracts; Dataset.datavector by bounded counting oracle',
             ded='Dataset.project: the requested column list reaches the frame selection and the domain projection unchanged (a bare str/int wrapped), and the result is built from exactly those with the weights carried over. Domain.__init__, project (3 spellings), transpose, marginalize, invert, canonical, axes, merge, contains, size (2 spellings), __eq__, __contains__, __getitem__, __len__, fromdict against set / order / product laws, with the representation invariant (lengths agree, attributes distinct, config matches shape) — for merge too: distinctness of the merged attribute list by the concat-distinct lemma (machine-checked by z3 in pv/vc/lemmas.py on every run and listed as an obligation), the config law from it with a hinted proof.',
             trusted=['sequence theory of pv/vc/arrays.py (quantified facts instantiated by E-matching; lemmas: product over concatenation, equal sequences have equal products/members)', 'numpy.histogramdd and pandas column selection (bounded tier)'],
             assumptions=['Domain.sort is not under contract (sorted is an extern)']),
 'C16': dict(technique=DED + ' for the normalisation clause (every stored table sums to the total, for arbitrary clique sets); exactness on acyclic structures by bounded run-time contract',
             ded='generalized_belief_propagation, FactorGraph.clique_marginals, FactorGraph.project: every table stored in the returned dict / returned sums to self.total (L-norm). RegionGraph.__init__: the convex flag binds belief_propagation to hazan_peng_shashua, otherwise to generalized_belief_propagation; total / iters / damping stored as given; build_graph leaves these attributes alone (frame obligation).',
             trusted=['exp/log identities over the reals'], assumptions=['finiteness and fixed-point convergence are outside deductive reach']),
 'C17': dict(technique=DED + ' for normalisation of the returned beliefs; optimality by bounded KKT certificate',
             ded='hazan_peng_shashua: every belief stored in mu sums to self.total; RegionGraph.__init__ dispatches to it exactly under convex=True. The stationarity pattern of the belief update is not expressible (comprehension sums are not deterministic terms in the encoding): decided by the bounded KKT certificate.',
             trusted=['exp/log identities over the reals', 'L-kkt (bounded tier)']),
 'C18': dict(technique=DED + ': oracle interface obligations (every attribute LocalInference uses on its oracle is defined by RegionGraph and FactorGraph) + normalisation idiom + one-cell instance of LocalInference._marginal_loss (gradient term = derivative of loss term); fit and exactness by bounded run-time contract',
             ded='interface: belief_propagation, cliques, damping, domain, messages, potentials, primal_feasibility are assigned on every path of __init__ (following build_graph etc.) or are methods, for both oracle classes; returned tables sum to the total. LocalInference._setup builds the oracle class and convexity its marginal_oracle name stands for (over its own domain, inner_iters sweeps); primal_feasibility measures the mean L1 disagreement per parent/child edge. LocalInference._marginal_loss in the one-cell instance: see C04 (same contract on the copy), replayed natively when refuted.',
             trusted=['definite-assignment analysis of __init__ (pv/vc/iface.py)']),
 'C19': dict(technique=DED + ': loop invariant on the exp-sum of the log-weights in entropic_mirror_descent; site contracts of estimate_total (the total the weights must sum to) and of Dataset.project (marginals laid out in the attribute order of the measurement); never-worse-than-uniform by bounded run-time contract',
             ded='entropic_mirror_descent returns weights summing to total, or to total*(1 + n*tiny/sum(x0)) if no step was ever accepted. estimate_total (public_inference.py copy): formula of the inverse-variance estimate as in C09. Dataset.project: requested column order reaches frame and domain unchanged. '
                 '"Never worse than uniform" is not derivable: the acceptance test compares against P, which is never updated after initialisation (observation recorded in DESIGN.md).',
             trusted=['exp/log identities over the reals']),
}


def apply(prop):
    m = META.get(prop.id)
    if not m:
        return prop
    prop.technique = m['technique']
    if 'level' in m:
        prop.level = m['level']
    ded = m.get('ded', '')
    if ded:
        prop.explanation = 'DEDUCTIVE TIER: ' + ded + '  BOUNDED TIER (never counted as proved): ' + (prop.explanation or '')
        prop.level_text = prop.explanation
    prop.trusted_base = list(m.get('trusted', [])) + ['z3 4.x/5.x, cvc5 1.0.3'] + [t for t in prop.trusted_base if t not in m.get('trusted', [])]
    prop.assumptions = list(m.get('assumptions', [])) + ['floats are mathematical reals in the deductive tier', 'partial correctness (a raising path returns nothing)'] + list(prop.assumptions)
    return prop
