"""Per-property check runner: deductive tier + bounded tier + evidence + exit code.

Exit codes: 0 property held on everything explored (possibly with UNDECIDED / KNOWN-FINDING
lines); 1 violation (a `VIOLATION property=<id> replay=<path>` line per violation);
3 checker crash / vacuous check (a broken check, never a verdict about the repository).
"""
import json, os, sys, time, hashlib, traceback, io, contextlib, signal
import multiprocessing as mp
from . import env

NPROC = int(os.environ.get('PV_NPROC', '0') or 0) or min(16, os.cpu_count() or 4)


class Prop:
    """Base class of a property check.  Subclasses live in pv/props/Cxx.py."""
    id = 'C00'
    level = 'other'
    title = ''
    technique = ''
    explanation = ''
    rule = ''
    trusted_base = []
    assumptions = []
    quick_budget_s = 90
    thorough_budget_s = 600
    exhaustive = {'quick': False, 'thorough': False}

    # ---- deductive tier
    def deductive(self, tier):
        """-> list of pv.deductive.FunctionReport.  Default: the module pv/ded/<id>.py if present."""
        import importlib
        try:
            mod = importlib.import_module('pv.ded.' + self.id)
        except ModuleNotFoundError as e:
            if e.name != 'pv.ded.' + self.id:
                raise
            return []
        return mod.run(tier)

    def expected_obligations(self):
        p = os.path.join(env.VERIF, 'pv', 'expected', self.id + '.json')
        return json.load(open(p)) if os.path.exists(p) else None

    def replay_obligation(self, ob):
        """Concretise a counter-model and run the real code.  -> dict(reproduced=bool, ...) or None.
        Default: pv/ded/<id>.replay(ob) if defined, else a search of the bounded tier for a failing case."""
        import importlib
        try:
            mod = importlib.import_module('pv.ded.' + self.id)
            if hasattr(mod, 'replay'):
                return mod.replay(self, ob)
        except ModuleNotFoundError:
            pass
        return None

    # ---- bounded tier
    def cases(self, tier, seed):
        return iter(())

    def run_case(self, case):
        """-> list of (clause, ok, detail)"""
        return []

    def nontrivial(self, case):
        return True

    def case_key(self, case):
        return hashlib.sha1(json.dumps(case, sort_keys=True, default=str).encode()).hexdigest()

    def finding_key(self, case, clause, detail):
        return '%s' % clause


_PROP = None


def _init_worker(prop):
    global _PROP
    _PROP = prop
    signal.signal(signal.SIGINT, signal.SIG_IGN)
    try:
        env.ensure_repo_importable()
    except Exception:
        pass


def _run_one(case):
    t0 = time.time()
    buf = io.StringIO()
    try:
        with contextlib.redirect_stdout(buf):
            res = _PROP.run_case(case)
        return ('ok', case, [(c, bool(ok), d) for c, ok, d in res], time.time() - t0)
    except Exception as e:
        # where was it raised?  An exception coming out of the tree under verification on an input of the property's
        # family means "no answer": a violation of the property; one raised by the harness itself is a broken check.
        tb = traceback.extract_tb(e.__traceback__)
        inner = tb[-1].filename if tb else ''
        in_repo = inner.startswith(env.REPO + os.sep)
        kind = 'raised-in-repo' if in_repo else 'error'
        where = '%s:%s in %s' % (os.path.relpath(inner, env.REPO) if in_repo else inner, tb[-1].lineno if tb else 0, tb[-1].name if tb else '')
        return (kind, case, '%s: %s @ %s\n%s' % (type(e).__name__, e, where, traceback.format_exc(limit=6)), time.time() - t0)


def jsonable(x):
    try:
        json.dumps(x)
        return x
    except TypeError:
        pass
    if isinstance(x, dict):
        return {str(k): jsonable(v) for k, v in x.items()}
    if isinstance(x, (list, tuple, set)):
        return [jsonable(v) for v in x]
    try:
        import numpy as np
        if isinstance(x, np.ndarray):
            return x.tolist()
        if isinstance(x, np.generic):
            return x.item()
    except Exception:
        pass
    return repr(x)


def _kmatch(k, fk):
    import re
    return k.get('key') == fk or bool(k.get('key_regex') and re.fullmatch(k['key_regex'], fk))


def load_known():
    p = os.path.join(env.VERIF, 'known_findings.json')
    if not os.path.exists(p):
        return []
    return json.load(open(p)).get('findings', [])


def run_property(prop, tier='quick', replay=None):
    t_start = time.time()
    seed = env.SEED
    pid = prop.id
    out_lines = []
    violations = []         # dicts: kind, name, replay path, reproduced
    undecided = []
    known_hits = []
    known = [k for k in load_known() if k.get('property') == pid and k.get('status') == 'known']
    replay_dir = os.path.join(env.OUT, 'replays')
    os.makedirs(replay_dir, exist_ok=True)
    for old_f in os.listdir(replay_dir):           # replay files of earlier runs of this property are stale
        if old_f.startswith(pid + '-'):
            try:
                os.unlink(os.path.join(replay_dir, old_f))
            except OSError:
                pass
    os.makedirs(os.path.join(env.OUT, 'evidence'), exist_ok=True)

    def write_replay(tag, payload):
        path = os.path.join(replay_dir, '%s-%s.json' % (pid, tag))
        with open(path, 'w') as f:
            json.dump(jsonable(payload), f, indent=1, default=str)
        return path

    # ------------------------------------------------------------------ deductive tier
    from . import deductive as D
    if tier == 'thorough':
        os.environ.setdefault('PV_CROSSCHECK', '1')      # every z3 proof is re-posed to cvc5 (pv/vc/solver.py)
    reports = []
    crash = None
    try:
        reports = prop.deductive(tier) or []
    except Exception as e:
        crash = 'deductive tier crashed: %s\n%s' % (e, traceback.format_exc())
    summ = D.summarize(reports)
    obs = [o for r in reports for o in r.obligations]
    for r in reports:
        if r.undecided:
            undecided.append(dict(obligation=r.name, reason=r.undecided))
        for probe, reach in r.vacuity:
            if reach is False:
                # unreachable probe: contradictory assumptions -> the proof of that function is vacuous
                undecided.append(dict(obligation=r.name + '/vacuity#' + probe, reason='probe unreachable under the contract assumptions'))
    expected = prop.expected_obligations()
    missing = []
    if expected is not None:
        import re as _re
        norm = lambda n: _re.sub(r'@L\d+', '', n)           # line numbers in site names are not part of the anchor
        have = {norm(o.meta.get('base', o.name)) for o in obs}
        missing = sorted({e for e in expected if norm(e) not in have})
        for m in missing:
            undecided.append(dict(obligation=m, reason='expected obligation was not generated (anchor drift)'))
    n_ref = 0
    for o in obs:
        if o.verdict == 'unknown':
            undecided.append(dict(obligation=o.name, reason=o.reason or 'solver unknown'))
        elif o.verdict == 'refuted':
            n_ref += 1
            rp = None
            try:
                rp = prop.replay_obligation(o)
            except Exception as e:
                rp = dict(reproduced=False, error='%s: %s' % (type(e).__name__, e))
            payload = dict(property=pid, kind='obligation', obligation=o.name, function=o.function,
                           obligation_kind=o.kind, solver=o.backend, solver_result='sat (path AND NOT goal)',
                           counter_model=o.model, replay=rp)
            path = write_replay('obligation-%d' % n_ref, payload)
            reproduced = bool(rp and rp.get('reproduced'))
            fk = 'obligation:' + o.meta.get('base', o.name)
            hit = [k for k in known if _kmatch(k, fk)]
            if hit:
                known_hits.append((hit[0], o.name))
                continue
            violations.append(dict(kind='obligation', name=o.name, replay=path, reproduced=reproduced))

    # ------------------------------------------------------------------ bounded tier
    budget = prop.quick_budget_s if tier == 'quick' else prop.thorough_budget_s
    deadline = time.time() + budget
    n_eval = 0
    n_clause = {}
    distinct = set()
    samples = []
    errors = []
    exhausted = True
    bounded_viol = 0
    if crash is None and os.environ.get('PV_SKIP_BOUNDED') and env.REPO != '/repo':
        pass        # robustness self-tests of the deductive tier on scratch trees (tools/rename_test.py); never for /repo itself
    elif crash is None:
        try:
            gen = prop.cases(tier, seed)
            ctx = mp.get_context('fork')
            with ctx.Pool(NPROC, initializer=_init_worker, initargs=(prop,)) as pool:
                # bounded in-flight submission: the generator is consumed lazily, so the budget really stops the feed
                import collections
                cs = getattr(prop, 'chunksize', 1)
                pending = collections.deque()
                gen_it = iter(gen)
                done_feeding = False

                def chunk():
                    out_ = []
                    for c_ in gen_it:
                        out_.append(c_)
                        if len(out_) >= cs:
                            break
                    return out_

                def results():
                    nonlocal done_feeding, exhausted
                    while True:
                        while not done_feeding and len(pending) < 3 * NPROC:
                            if time.time() > deadline:
                                done_feeding, exhausted = True, False
                                break
                            ch = chunk()
                            if not ch:
                                done_feeding = True
                                break
                            pending.append(pool.map_async(_run_one, ch))
                        if not pending:
                            return
                        # take whichever chunk is ready first (keeps workers busy without reordering concerns)
                        for _ in range(len(pending)):
                            r_ = pending.popleft()
                            if r_.ready():
                                for item in r_.get():
                                    yield item
                                break
                            pending.append(r_)
                        else:
                            pending[0].wait(0.05)

                for status, case, res, secs in results():
                    n_eval += 1
                    if status == 'error':
                        errors.append(dict(case=case, error=res))
                        continue
                    if status == 'raised-in-repo':
                        res = [('completes-without-error', False, dict(exception=res.splitlines()[0], traceback=res))]
                    if prop.nontrivial(case):
                        distinct.add(prop.case_key(case))
                    if len(samples) < 3:
                        samples.append(dict(case=jsonable(case), clauses=[[c, ok] for c, ok, _ in res][:12]))
                    for clause, ok, detail in res:
                        n_clause[clause] = n_clause.get(clause, 0) + 1
                        if ok:
                            continue
                        fk = prop.finding_key(case, clause, detail)
                        hit = [k for k in known if _kmatch(k, fk)]
                        if hit:
                            known_hits.append((hit[0], fk))
                            continue
                        bounded_viol += 1
                        if bounded_viol <= 5:
                            path = write_replay('bounded-%d' % bounded_viol,
                                                dict(property=pid, kind='bounded', clause=clause, case=case, detail=detail,
                                                     how_to_replay='bin/check %s --replay <this file>' % pid))
                            violations.append(dict(kind='bounded', name=clause, replay=path, reproduced=True))
        except Exception as e:
            crash = 'bounded tier crashed: %s\n%s' % (e, traceback.format_exc())

    # ------------------------------------------------------------------ verdict + evidence
    wall = time.time() - t_start
    n_obl = len(obs)
    n_dis = sum(o.verdict == 'discharged' for o in obs)
    for u in undecided:
        out_lines.append('UNDECIDED property=%s obligation=%s reason=%s' % (pid, u['obligation'], u['reason'].splitlines()[0][:200]))
    seen_known = set()
    for k, what in known_hits:
        kk = k.get('key') or k.get('key_regex')
        if kk not in seen_known:
            seen_known.add(kk)
            out_lines.append('KNOWN-FINDING: property=%s %s' % (pid, k.get('what', kk)))
    first_bounded = next((v['replay'] for v in violations if v['kind'] == 'bounded'), None)
    for v in violations:
        line = 'VIOLATION property=%s replay=%s' % (pid, v['replay'])
        if not v['reproduced']:
            line += ' obligation=%s' % v['name'].replace(' ', '_')
            if first_bounded is not None:
                # no input was derived from this obligation's counter-model, but the bounded tier of the same run did find a
                # failing input of the property on the real code: point at it instead of claiming that none was found
                line += ' see-also=%s' % first_bounded
                try:
                    d_ = json.load(open(v['replay']))
                    d_['failing_input_found_by_bounded_tier_in_the_same_run'] = first_bounded
                    json.dump(d_, open(v['replay'], 'w'), indent=1, default=str)
                except Exception:
                    pass
            # the words refer to this obligation's own counter-model: none of its values was turned into a failing input
            line += ' no-failing-input-found'
        out_lines.append(line)
    if errors and not violations:
        # an exception in the harness or in the code under test on an input of the stated family
        for e in errors[:3]:
            out_lines.append('CHECK-ERROR property=%s case=%s error=%s' % (pid, json.dumps(jsonable(e['case']))[:300], e['error'].splitlines()[0][:300]))
    samples_ob = [o.as_dict() for o in obs[:3]]
    coverage = dict(
        obligations=n_obl, discharged=n_dis,
        checker_cmd='bin/check %s --tier %s  (pv.vc.engine VC generator over the real AST -> z3 %s; cvc5 1.0.3 for z3 unknowns)' % (pid, tier, _z3v()),
        trusted_base=list(prop.trusted_base),
        evaluations=n_eval, distinct_nontrivial=len(distinct),
        rule=prop.rule, exhaustive=bool(prop.exhaustive.get(tier, False) and exhausted and n_eval > 0),
        samples=(samples_ob + samples) or [dict(note='no cases')],
        explanation=prop.explanation,
        deductive=summ, undecided=undecided,
        bounded=dict(label='BOUNDED (never counted as proved)', evaluations=n_eval, clause_evaluations=n_clause,
                     violations=bounded_viol, harness_errors=len(errors), error_samples=[jsonable(e) for e in errors[:2]],
                     budget_s=budget, generator_exhausted=exhausted),
        known_findings_matched=sorted(seen_known),
    )
    ev = dict(property_id=pid, tier=tier, seed=seed, level=prop.level, coverage=coverage,
              assumptions=list(prop.assumptions), wall_s=round(wall, 2), violations=len(violations))
    with open(os.path.join(env.OUT, 'evidence', pid + '.json'), 'w') as f:
        json.dump(jsonable(ev), f, indent=1, default=str)
    for l in out_lines:
        print(l)
    print('%s tier=%s obligations=%d discharged=%d undecided=%d bounded_evaluations=%d distinct_nontrivial=%d violations=%d wall=%.1fs'
          % (pid, tier, n_obl, n_dis, len(undecided), n_eval, len(distinct), len(violations), wall))
    if crash:
        print('CHECK-CRASH property=%s %s' % (pid, crash))
        return 3
    if violations:
        return 1
    if errors:
        return 3
    if n_obl == 0 and n_eval == 0:
        print('CHECK-VACUOUS property=%s: zero obligations and zero bounded evaluations' % pid)
        return 3
    return 0


def _z3v():
    try:
        import z3
        return z3.get_version_string()
    except Exception:
        return '?'


def replay_file(prop, path):
    global _PROP
    payload = json.load(open(path))
    if payload.get('kind') == 'bounded':
        env.ensure_repo_importable()
        _PROP = prop
        status, case, res, secs = _run_one(payload['case'])
        if status == 'error':
            print('CHECK-ERROR while replaying: %s' % res)
            return 3
        if status == 'raised-in-repo':
            res = [('completes-without-error', False, dict(exception=res.splitlines()[0]))]
        bad = [(c, d) for c, ok, d in res if not ok]
        print(json.dumps(jsonable(dict(case=payload['case'], failing_clauses=bad)), indent=1, default=str))
        return 1 if bad else 0
    rp = payload.get('replay') or {}
    if isinstance(rp.get('case'), dict):
        # the counter-model was concretised into a case of the bounded harness: run it again on the current tree
        env.ensure_repo_importable()
        _PROP = prop
        status, case, res, secs = _run_one(rp['case'])
        if status == 'error':
            print('CHECK-ERROR while replaying: %s' % res)
            return 3
        if status == 'raised-in-repo':
            res = [('completes-without-error', False, dict(exception=res.splitlines()[0]))]
        bad = [(c, d) for c, ok, d in res if not ok]
        print(json.dumps(jsonable(dict(obligation=payload.get('obligation'), case=rp['case'], failing_clauses=bad)), indent=1, default=str))
        return 1 if bad else 0
    print(json.dumps(payload, indent=1))
    return 1 if rp.get('reproduced') else 0
